import PhreeqcVerif.Model.RawTables
/-!
# Generic fixed-point theorem for the abstract record print / read model (C10)
-/
namespace PhreeqcVerif.Raw

variable {F V : Type} [DecidableEq F]

/-- behavioural assumptions on values: printing-then-parsing is idempotent, does not change what the writer's
conditions see, and reproduces the values of a fresh object exactly. For the real code this is the IEEE-754
round-trip guarantee at the 17 significant digits `dump_raw` prints (`norm` is then the identity on doubles, names
and flags), and, for a nested block, `cycle_idem` of the sub-class. -/
structure Sys.ValOk (S : Sys F V) : Prop where
  norm_idem : ∀ f v, S.norm f (S.norm f v) = S.norm f v
  test_norm : ∀ f v, S.test f (S.norm f v) = S.test f v
  norm_fresh : ∀ f, S.norm f (S.fresh f) = S.fresh f

/-- closed form of one print/read cycle at field `x` -/
def valAt (S : Sys F V) (es : List (Entry F)) (r : F → V) (dflt : V) (x : F) : V :=
  match es.find? (fun e => e.field = x) with
  | some e => if e.route = some x ∧ guardHolds S e r = true then S.norm x (r x) else dflt
  | none => dflt

theorem nodupF_cons {x : F} {xs : List F} (h : nodupF (x :: xs) = true) : x ∉ xs ∧ nodupF xs = true := by
  simp [nodupF] at h
  exact ⟨h.1, h.2⟩

theorem find_none_of_not_mem {es : List (Entry F)} {x : F} (h : x ∉ es.map (·.field)) :
    es.find? (fun e => e.field = x) = none := by
  rw [List.find?_eq_none]
  intro e he
  simp only [decide_eq_true_eq]
  intro hx
  exact h (by rw [← hx]; exact List.mem_map_of_mem he)

/-- folding the reader over the printed lines of `es`, starting from `acc` -/
theorem fold_eq (S : Sys F V) (r : F → V) :
    ∀ (es : List (Entry F)) (acc : F → V),
      (es.all (fun e => e.route == none || e.route == some e.field) = true) →
      nodupF (es.map (·.field)) = true →
      ∀ x, (printOf S es r).foldl (readLine S) acc x = valAt S es r (acc x) x := by
  intro es
  induction es with
  | nil => intro acc _ _ x; simp [printOf, valAt]
  | cons e es ih =>
    intro acc hroute hnd x
    have hr : (e.route = none ∨ e.route = some e.field) := by
      have := (List.all_cons ▸ hroute : _)
      simp only [Bool.and_eq_true, Bool.or_eq_true, beq_iff_eq] at this
      exact this.1
    have hroute' : es.all (fun e => e.route == none || e.route == some e.field) = true := by
      have := (List.all_cons ▸ hroute : _)
      simp only [Bool.and_eq_true] at this
      exact this.2
    have hnd' := nodupF_cons (by simpa using hnd)
    by_cases hg : guardHolds S e r = true
    · -- line written
      have hp : printOf S (e :: es) r = (e, r e.field) :: printOf S es r := by
        simp [printOf, hg]
      rw [hp, List.foldl_cons, ih _ hroute' hnd'.2]
      by_cases hx : e.field = x
      · subst hx
        have hnone := find_none_of_not_mem hnd'.1
        simp only [valAt, hnone, List.find?_cons, decide_true]
        rcases hr with h | h
        · simp [readLine, h]
        · simp [readLine, h, hg]
      · have hne : ¬ (x = e.field) := fun h => hx h.symm
        have hacc : readLine S acc (e, r e.field) x = acc x := by
          rcases hr with h | h
          · simp [readLine, h]
          · simp [readLine, h, hne]
        simp only [valAt, List.find?_cons, hx, decide_false, hacc]
    · -- line not written
      have hp : printOf S (e :: es) r = printOf S es r := by
        simp [printOf, hg]
      rw [hp, ih _ hroute' hnd'.2]
      by_cases hx : e.field = x
      · subst hx
        have hnone := find_none_of_not_mem hnd'.1
        simp [valAt, hnone, hg]
      · simp only [valAt, List.find?_cons, hx, decide_false]

theorem cycle_eq (S : Sys F V) (h : structOk S.entries = true) (r : F → V) (x : F) :
    S.cycle r x = valAt S S.entries r (S.fresh x) x := by
  simp only [structOk, Bool.and_eq_true] at h
  exact fold_eq S r S.entries S.fresh h.1.1 h.1.2 x

theorem find_unique {es : List (Entry F)} (hnd : nodupF (es.map (·.field)) = true) {e : Entry F} (he : e ∈ es) :
    es.find? (fun e' => e'.field = e.field) = some e := by
  induction es with
  | nil => cases he
  | cons a as ih =>
    have hnd' := nodupF_cons (by simpa using hnd)
    rcases List.mem_cons.mp he with rfl | h
    · simp
    · have hne : ¬ (a.field = e.field) := fun hx => hnd'.1 (by rw [hx]; exact List.mem_map_of_mem h)
      simp only [List.find?_cons, hne, decide_false]
      exact ih hnd'.2 h

/-- **raw_fixed_point** (record level): for every system whose entries satisfy the structural obligations and whose
values behave (`ValOk`), one print/read cycle is idempotent — for every record `r`, at every field. -/
theorem cycle_idem (S : Sys F V) (h : structOk S.entries = true) (hv : S.ValOk) (r : F → V) :
    S.cycle (S.cycle r) = S.cycle r := by
  funext x
  rw [cycle_eq S h (S.cycle r) x]
  have h' := h
  simp only [structOk, Bool.and_eq_true] at h'
  obtain ⟨⟨hroute, hnd⟩, hguard⟩ := h'
  cases hf : S.entries.find? (fun e => e.field = x) with
  | none =>
    rw [cycle_eq S h r x]
    simp [valAt, hf]
  | some e =>
    have hmem : e ∈ S.entries := List.mem_of_find?_eq_some hf
    have hfx : e.field = x := by simpa using List.find?_some hf
    have hc : S.cycle r x = (if e.route = some x ∧ guardHolds S e r = true then S.norm x (r x) else S.fresh x) := by
      rw [cycle_eq S h r x]; simp [valAt, hf]
    simp only [valAt, hf]
    by_cases hrt : e.route = some x
    · -- routed: compare the guards before and after
      have hgs : guardHolds S e (S.cycle r) = guardHolds S e r ∨
                 (guardHolds S e r = false ∧ S.cycle r x = S.fresh x ∧ e.guard = some x) := by
        cases hgd : e.guard with
        | none => left; simp [guardHolds, hgd]
        | some m =>
          have hg := List.all_eq_true.mp hguard e hmem
          simp only [hgd, Bool.or_eq_true, beq_iff_eq, List.any_eq_true, Bool.and_eq_true] at hg
          rcases hg with hown | ⟨e', he', ⟨hf', hg'⟩, hr'⟩
          · -- guard on the own field
            have hmx : m = x := by rw [hown, hfx]
            subst hmx
            by_cases ht : S.test m (r m) = true
            · left
              have : S.cycle r m = S.norm m (r m) := by rw [hc]; simp [hrt, guardHolds, hgd, ht]
              simp [guardHolds, hgd, this, hv.test_norm]
            · right
              have ht' : S.test m (r m) = false := by simpa using ht
              refine ⟨by simp [guardHolds, hgd, ht'], ?_, rfl⟩
              rw [hc]; simp [guardHolds, hgd, ht']
          · -- guard on an unconditionally restored field
            left
            have hfind : S.entries.find? (fun e'' => e''.field = m) = some e' := by
              have := find_unique hnd he'
              rwa [hf'] at this
            have : S.cycle r m = S.norm m (r m) := by
              rw [cycle_eq S h r m]
              simp [valAt, hfind, hr', guardHolds, hg']
            simp [guardHolds, hgd, this, hv.test_norm]
      rcases hgs with hsame | ⟨hoff, hfresh, hown⟩
      · rw [hsame, hc]
        by_cases hg : guardHolds S e r = true
        · simp [hrt, hg, hv.norm_idem]
        · simp [hrt, hg]
      · -- own guard was off: the field holds the fresh value, whose print/parse is exact
        rw [hfresh]
        by_cases hg2 : guardHolds S e (S.cycle r) = true
        · simp [hrt, hg2, hv.norm_fresh]
        · simp [hrt, hg2]
    · rw [hc]; simp [hrt]

/-- **raw_fixed_point** (text level): dump → read → dump → read → dump gives the same text as dump → read → dump. -/
theorem raw_fixed_point (S : Sys F V) (h : structOk S.entries = true) (hv : S.ValOk) (r : F → V) :
    S.print (S.cycle (S.cycle r)) = S.print (S.cycle r) := by
  rw [cycle_idem S h hv r]

/-- a field whose key is always written and routed to itself is restored (up to print/parse of the value) -/
theorem restored_of_routed (S : Sys F V) (h : structOk S.entries = true) (r : F → V) (e : Entry F)
    (he : e ∈ S.entries) (hr : e.route = some e.field) (hg : e.guard = none) :
    S.cycle r e.field = S.norm e.field (r e.field) := by
  have h' := h
  simp only [structOk, Bool.and_eq_true] at h'
  rw [cycle_eq S h r e.field]
  simp [valAt, find_unique h'.1.2 he, hr, guardHolds, hg]

/-- a field whose key the reader drops (or that no key prints) comes back as in a fresh object -/
theorem fresh_of_dropped (S : Sys F V) (h : structOk S.entries = true) (r : F → V) (x : F)
    (hx : ∀ e ∈ S.entries, e.field = x → e.route = none) : S.cycle r x = S.fresh x := by
  rw [cycle_eq S h r x]
  cases hf : S.entries.find? (fun e => e.field = x) with
  | none => simp [valAt, hf]
  | some e =>
    have hmem : e ∈ S.entries := List.mem_of_find?_eq_some hf
    have hfx : e.field = x := by simpa using List.find?_some hf
    simp [valAt, hf, hx e hmem hfx]

/-! ## Serializer round trip -/
section
variable {F V : Type} [DecidableEq F]

theorem deserFlat_untouched (ops : List (FOp F)) : ∀ (s : List V × List V) (acc : F → V) (f : F),
    f ∉ ops.map (·.field) → deserFlat ops s acc f = acc f := by
  induction ops with
  | nil => intro s acc f _; rfl
  | cons o os ih =>
    intro s acc f hf
    obtain ⟨is, ds⟩ := s
    have hne : f ≠ o.field := fun h => hf (by simp [h])
    have hf' : f ∉ os.map (·.field) := fun h => hf (by simp only [List.map_cons, List.mem_cons]; exact Or.inr h)
    cases hk : o.kind with
    | int =>
      cases is with
      | nil => simp [deserFlat, hk]
      | cons v is' => simp only [deserFlat, hk]; rw [ih _ _ f hf']; simp [hne]
    | dbl =>
      cases ds with
      | nil => simp [deserFlat, hk]
      | cons v ds' => simp only [deserFlat, hk]; rw [ih _ _ f hf']; simp [hne]

/-- **Serializer round trip** for bracket-free programs: a reader that pops with the SAME op list the writer pushed with
restores every field exactly, whatever follows in the streams -/
theorem deser_ser_flat (ops : List (FOp F)) (hnd : (ops.map (·.field)).Nodup) (r : F → V) :
    ∀ (ri rd : List V) (acc : F → V) (f : F), f ∈ ops.map (·.field) →
      deserFlat ops ((serFlat ops r).1 ++ ri, (serFlat ops r).2 ++ rd) acc f = r f := by
  induction ops with
  | nil => intro _ _ _ f hf; cases hf
  | cons o os ih =>
    intro ri rd acc f hf
    simp only [List.map_cons, List.nodup_cons] at hnd
    cases hk : o.kind with
    | int =>
      have h1 : (serFlat (o :: os) r).1 = r o.field :: (serFlat os r).1 := by simp [serFlat, hk]
      have h2 : (serFlat (o :: os) r).2 = (serFlat os r).2 := by simp [serFlat, hk]
      rw [h1, h2]
      simp only [List.cons_append, deserFlat, hk]
      rcases List.mem_cons.mp hf with rfl | h
      · rw [deserFlat_untouched os _ _ _ hnd.1]; simp
      · exact ih hnd.2 ri rd _ f h
    | dbl =>
      have h1 : (serFlat (o :: os) r).1 = (serFlat os r).1 := by simp [serFlat, hk]
      have h2 : (serFlat (o :: os) r).2 = r o.field :: (serFlat os r).2 := by simp [serFlat, hk]
      rw [h1, h2]
      simp only [List.cons_append, deserFlat, hk]
      rcases List.mem_cons.mp hf with rfl | h
      · rw [deserFlat_untouched os _ _ _ hnd.1]; simp
      · exact ih hnd.2 ri rd _ f h

end

/-! ## `cxxNameDouble::merge_redox` (totals of SOLUTION_RAW / SOLUTION_MODIFY) -/
section
variable {V : Type}

theorem find?_filter_keep {α : Type} (keep q : α → Bool) (h : ∀ a, q a = true → keep a = true) (l : List α) :
    (l.filter keep).find? q = l.find? q := by
  induction l with
  | nil => rfl
  | cons a as ih =>
    by_cases hq : q a = true
    · have hk := h a hq
      simp [hk, hq]
    · by_cases hk : keep a = true
      · simp [hk, hq, ih]
      · simp [hk, hq, ih]

theorem ndGet_ndSet_self (m : NameDouble V) (k : String) (v : V) : ndGet (ndSet m k v) k = some v := by
  simp only [ndGet, ndSet, ndErase, List.find?_append]
  have : (List.filter (fun x => x.1 != k) m).find? (fun x => x.1 == k) = none := by
    rw [List.find?_eq_none]
    intro x hx
    simp only [List.mem_filter] at hx
    simpa using hx.2
  simp [this]

theorem ndGet_ndSet_other (m : NameDouble V) (k k' : String) (v : V) (h : k' ≠ k) :
    ndGet (ndSet m k v) k' = ndGet m k' := by
  simp only [ndGet, ndSet, ndErase, List.find?_append]
  have h1 : ([(k, v)] : NameDouble V).find? (fun x => x.1 == k') = none := by simp [Ne.symm h]
  rw [h1]
  simp only [Option.or_none]
  congr 1
  apply find?_filter_keep
  intro a ha
  have : a.1 = k' := by simpa using ha
  simp [this, h]

theorem mem_ndSet {m : NameDouble V} {k : String} {v : V} {x : String × V} (hx : x ∈ ndSet m k v) :
    x = (k, v) ∨ (x ∈ m ∧ x.1 ≠ k) := by
  simp only [ndSet, ndErase, List.mem_append, List.mem_filter, List.mem_singleton] at hx
  rcases hx with ⟨h1, h2⟩ | h
  · right; exact ⟨h1, by simpa using h2⟩
  · left; exact h

/-- a name that starts with `n ++ "("` carries a parenthesis -/
theorem isRedox_of_startsWith {n k : String} (h : startsWith (n ++ "(") k = true) : isRedox k = true := by
  simp only [startsWith, List.isPrefixOf_iff_prefix, String.toList_append] at h
  obtain ⟨t, ht⟩ := h
  simp only [isRedox, ← ht]
  simp

theorem mem_takeWhile_true {α : Type} (p : α → Bool) : ∀ (l : List α) (x : α), x ∈ l.takeWhile p → p x = true := by
  intro l
  induction l with
  | nil => intro x h; cases h
  | cons a as ih =>
    intro x h
    by_cases ha : p a = true
    · simp only [List.takeWhile_cons, ha, if_true, List.mem_cons] at h
      rcases h with rfl | h
      · exact ha
      · exact ih x h
    · simp [List.takeWhile_cons, ha] at h

/-- the element of a name carries no parenthesis -/
theorem isRedox_eltName (n : String) : isRedox (eltName n) = false := by
  simp only [isRedox, eltName, String.toList_ofList]
  rw [Bool.eq_false_iff]
  intro h
  have h' : '(' ∈ n.toList.takeWhile (· != '(') := by simpa using h
  have := mem_takeWhile_true _ _ _ h'
  simp at this

/-- **plain element total**: after merging the total of a plain element name `n`, no valence-state entry `n(…)` remains,
the element total is the merged value, and every entry of other elements is untouched -/
theorem mergeOne_plain (m : NameDouble V) (n : String) (v : V) (hn : isRedox n = false) :
    (∀ x ∈ mergeOne m (n, v), startsWith (n ++ "(") x.1 = false) ∧
    ndGet (mergeOne m (n, v)) n = some v ∧
    (∀ k, k ≠ n → startsWith (n ++ "(") k = false → ndGet (mergeOne m (n, v)) k = ndGet m k) := by
  simp only [mergeOne, hn, Bool.false_eq_true, if_false]
  refine ⟨?_, ndGet_ndSet_self _ _ _, ?_⟩
  · intro x hx
    rcases mem_ndSet hx with rfl | ⟨h1, _⟩
    · rw [Bool.eq_false_iff]
      intro h
      have := isRedox_of_startsWith h
      simp [hn] at this
    · simp only [List.mem_filter] at h1
      simpa using h1.2
  · intro k hk hp
    rw [ndGet_ndSet_other _ _ _ _ hk]
    simp only [ndGet]
    congr 1
    apply find?_filter_keep
    intro a ha
    have : a.1 = k := by simpa using ha
    simp [this, hp]

/-- **valence-state total**: after merging the total of `El(v)`, the plain entry `El` is gone and the valence state holds
the merged value -/
theorem mergeOne_redox (m : NameDouble V) (n : String) (v : V) (hn : isRedox n = true) :
    ndGet (mergeOne m (n, v)) (eltName n) = none ∧ ndGet (mergeOne m (n, v)) n = some v := by
  have hne : eltName n ≠ n := by
    intro h
    have := isRedox_eltName n
    rw [h, hn] at this
    cases this
  simp only [mergeOne, hn, if_true]
  refine ⟨?_, ndGet_ndSet_self _ _ _⟩
  rw [ndGet_ndSet_other _ _ _ _ hne]
  simp only [ndGet, ndErase]
  have : (List.filter (fun x => x.1 != eltName n) m).find? (fun x => x.1 == eltName n) = none := by
    rw [List.find?_eq_none]
    intro x hx
    simp only [List.mem_filter] at hx
    simpa using hx.2
  simp [this]

/-- a later plain total of another element leaves "total of `n` is `v`, no `n(…)` entry" intact -/
theorem plain_preserved (m : NameDouble V) (n : String) (v : V) (e : String × V) (hn : isRedox n = false)
    (he : isRedox e.1 = false) (hne : n ≠ e.1)
    (h : ndGet m n = some v ∧ ∀ x ∈ m, startsWith (n ++ "(") x.1 = false) :
    ndGet (mergeOne m e) n = some v ∧ ∀ x ∈ mergeOne m e, startsWith (n ++ "(") x.1 = false := by
  obtain ⟨_, _, h3⟩ := mergeOne_plain m e.1 e.2 he
  have hpre : startsWith (e.1 ++ "(") n = false := by
    rw [Bool.eq_false_iff]; intro hp
    have := isRedox_of_startsWith hp
    rw [hn] at this; cases this
  refine ⟨by rw [show e = (e.1, e.2) from rfl, h3 n hne hpre]; exact h.1, ?_⟩
  intro x hx
  have hx' : x ∈ mergeOne m (e.1, e.2) := hx
  simp only [mergeOne, he, Bool.false_eq_true, if_false] at hx'
  rcases mem_ndSet hx' with rfl | ⟨hm, _⟩
  · rw [Bool.eq_false_iff]; intro hp
    have := isRedox_of_startsWith hp
    simp [he] at this
  · simp only [List.mem_filter] at hm
    exact h.2 x hm.1

theorem plain_preserved_fold (n : String) (v : V) (hn : isRedox n = false) :
    ∀ (src : NameDouble V) (m : NameDouble V), (∀ e ∈ src, isRedox e.1 = false) → n ∉ src.map (·.1) →
      (ndGet m n = some v ∧ ∀ x ∈ m, startsWith (n ++ "(") x.1 = false) →
      ndGet (mergeRedox m src) n = some v ∧ ∀ x ∈ mergeRedox m src, startsWith (n ++ "(") x.1 = false := by
  intro src
  induction src with
  | nil => intro m _ _ h; exact h
  | cons a as ih =>
    intro m hpl hnot h
    have hne : n ≠ a.1 := fun heq => hnot (by simp [heq])
    have hnot' : n ∉ as.map (·.1) := fun hm => hnot (by simp only [List.map_cons, List.mem_cons]; exact Or.inr hm)
    exact ih (mergeOne m a) (fun e he => hpl e (List.mem_cons_of_mem _ he)) hnot'
      (plain_preserved m n v a hn (hpl a (by simp)) hne h)

/-- merging only plain element totals (distinct names) — what `SOLUTION_MODIFY -totals` with element names does: for every
merged element the total is the given one and NO valence-state entry of it is left, whatever the map held before -/
theorem mergeRedox_plain : ∀ (src : NameDouble V), (∀ e ∈ src, isRedox e.1 = false) → (src.map (·.1)).Nodup →
    ∀ (m : NameDouble V), ∀ e ∈ src,
      ndGet (mergeRedox m src) e.1 = some e.2 ∧ ∀ x ∈ mergeRedox m src, startsWith (e.1 ++ "(") x.1 = false := by
  intro src
  induction src with
  | nil => intro _ _ m e he; cases he
  | cons a as ih =>
    intro hpl hnd m e he
    have hpl' : ∀ e ∈ as, isRedox e.1 = false := fun e h => hpl e (List.mem_cons_of_mem _ h)
    simp only [List.map_cons, List.nodup_cons] at hnd
    rcases List.mem_cons.mp he with rfl | h
    · obtain ⟨h1, h2, _⟩ := mergeOne_plain m e.1 e.2 (hpl e (by simp))
      exact plain_preserved_fold e.1 e.2 (hpl e (by simp)) as (mergeOne m e) hpl' hnd.1 ⟨h2, h1⟩
    · exact ih hpl' hnd.2 (mergeOne m a) e h

end

end PhreeqcVerif.Raw
