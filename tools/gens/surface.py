"""Seeded generator of PHREEQC inputs with a SURFACE (property C20).

A case is a *spec* (plain dict, JSON-able) that `render(spec)` turns into input text, so that a failing case can be
shrunk by editing the spec.  All randomness comes from the `rng` passed in.

Kinds: hfo (database sites Hfo_w/Hfo_s of phreeqc.dat / wateq4f.dat / minteq.v4.dat), user (site types defined with
SURFACE_MASTER_SPECIES / SURFACE_SPECIES, incl. a bidentate species and two independent surfaces), cd (CD-MUSIC three
plane model with -capacitances), phase (sites proportional to an EQUILIBRIUM_PHASES reactant), kin (sites proportional
to a KINETICS reactant).  Electrostatic options: ddl (default), no_edl, diffuse_layer [thickness], donnan thickness,
donnan debye_lengths n [limit], only_counter_ions, ccm capacitance, cd_music.
"""
import math

DBS = ["phreeqc.dat", "wateq4f.dat", "minteq.v4.dat"]

# element keyword, (lo, hi) mmol/kgw, charge sign of the dominant free ion (for the charge-balance choice)
SORB = {
    "Zn": (1e-4, 0.5), "Cd": (1e-4, 0.5), "Cu": (1e-4, 0.2), "Pb": (1e-5, 0.05), "Ca": (0.05, 20), "Mg": (0.05, 20),
    "Sr": (1e-3, 2), "Ba": (1e-3, 0.5), "Mn": (1e-3, 0.5), "S(6)": (0.05, 20), "P": (1e-4, 0.3), "F": (1e-3, 1),
    "B": (1e-3, 1), "Si": (1e-2, 1.5),
}
# redox elements entered as totals: the sorbing species (H3AsO3, SeO3-2, …) is a non-primary valence state that is rewritten
# through e- in reaction steps (only in the databases whose Hfo set has them)
REDOX = {"As": (1e-4, 0.05), "Se": (1e-4, 0.05)}
ANIONS = {"S(6)", "P", "F", "B", "Si", "As", "Se"}
BG = [("Na", "Cl"), ("Na", "N(5)"), ("K", "Cl")]


def loguni(rng, lo, hi):
    return 10 ** rng.uniform(math.log10(lo), math.log10(hi))


def fmt(x):
    return "%.6g" % x


# ---------------------------------------------------------------------------------------------- user-defined site types
def user_defs(rng, names, cations, anions):
    """SURFACE_MASTER_SPECIES / SURFACE_SPECIES text for site types `names` (e.g. ["Sfa_a", "Sfa_b"], ["Sfb_a"])"""
    ms, sp, species = [], [], []
    for nm in names:
        m = nm + "OH"
        ms.append(f" {nm} {m}")
        sp.append(f" {m} = {m}\n  log_k 0")
        species.append(m)
        k1 = rng.uniform(4.0, 8.5)
        k2 = rng.uniform(-11.5, -7.0)
        sp.append(f" {m} + H+ = {m}2+\n  log_k {k1:.2f}")
        species.append(m + "2+")
        sp.append(f" {m} = {nm}O- + H+\n  log_k {k2:.2f}")
        species.append(nm + "O-")
        for c in cations:
            ion = {"Zn": "Zn+2", "Cd": "Cd+2", "Cu": "Cu+2", "Pb": "Pb+2", "Ca": "Ca+2", "Mg": "Mg+2", "Sr": "Sr+2",
                   "Ba": "Ba+2", "Mn": "Mn+2"}[c]
            kind = rng.random()
            if kind < 0.55:
                if rng.random() < 0.3:   # written from the protonated site (rewritten to the master by the engine)
                    sp.append(f" {m}2+ + {ion} = {nm}O{c}+ + 2H+\n  log_k {rng.uniform(-6, 2.5) - k1:.2f}")
                else:
                    sp.append(f" {m} + {ion} = {nm}O{c}+ + H+\n  log_k {rng.uniform(-6, 2.5):.2f}")
                species.append(f"{nm}O{c}+")
            elif kind < 0.8:
                sp.append(f" {m} + {ion} = {nm}OH{c}+2\n  log_k {rng.uniform(1, 6):.2f}")
                species.append(f"{nm}OH{c}+2")
            elif rng.random() < 0.3:   # bidentate written from the deprotonated site
                sp.append(f" 2{nm}O- + {ion} = ({nm}O)2{c}\n  log_k {rng.uniform(-9, -2) - 2 * k2:.2f}")
                species.append(f"({nm}O)2{c}")
            else:   # bidentate: coefficient 2 on the surface master (equiv = 2)
                sp.append(f" 2{m} + {ion} = ({nm}O)2{c} + 2H+\n  log_k {rng.uniform(-9, -2):.2f}")
                species.append(f"({nm}O)2{c}")
        for a in anions:
            if a == "S(6)":
                if rng.random() < 0.5:
                    sp.append(f" {m} + SO4-2 + H+ = {nm}SO4- + H2O\n  log_k {rng.uniform(5, 9):.2f}")
                    species.append(f"{nm}SO4-")
                else:
                    sp.append(f" {m} + SO4-2 = {nm}OHSO4-2\n  log_k {rng.uniform(-0.5, 2):.2f}")
                    species.append(f"{nm}OHSO4-2")
            elif a == "P":
                sp.append(f" {m} + PO4-3 + 2H+ = {nm}HPO4- + H2O\n  log_k {rng.uniform(22, 27):.2f}")
                species.append(f"{nm}HPO4-")
                if rng.random() < 0.5:
                    sp.append(f" {m} + PO4-3 + 3H+ = {nm}H2PO4 + H2O\n  log_k {rng.uniform(28, 33):.2f}")
                    species.append(f"{nm}H2PO4")
            elif a == "F":
                sp.append(f" {m} + F- + H+ = {nm}F + H2O\n  log_k {rng.uniform(6, 10):.2f}")
                species.append(f"{nm}F")
        if rng.random() < 0.3:   # temperature dependence on one reaction
            sp[-1] += f"\n  delta_h {rng.uniform(-40, 40):.1f} kJ"
    text = "SURFACE_MASTER_SPECIES\n" + "\n".join(ms) + "\nSURFACE_SPECIES\n" + "\n".join(sp) + "\n"
    return text, species


def cd_defs(rng, cations, anions):
    """a goethite-like CD-MUSIC surface `Goe` with two site types, a protonation/deprotonation chain, and complexes with
    1, 2 or 3 sites written either "direct" (from the master species) or "chain" (from a non-master parent that has a
    non-zero -cd_music itself).  For a chain species the numbers after -cd_music are those of the reaction AS WRITTEN:
    effective distribution (relative to the master) minus coefficient × distribution of the parent."""
    ms = [" Goe_uni Goe_uniOH-0.5", " Goe_tri Goe_triO-0.5"]
    sp = [" Goe_uniOH-0.5 = Goe_uniOH-0.5\n  -cd_music 0 0 0 0 0\n  log_k 0",
          " Goe_triO-0.5 = Goe_triO-0.5\n  -cd_music 0 0 0 0 0\n  log_k 0"]
    species = ["Goe_uniOH-0.5", "Goe_triO-0.5"]
    kh = rng.uniform(8.0, 10.0)
    kd = rng.uniform(-13.5, -11.0)
    sp.append(f" Goe_uniOH-0.5 + H+ = Goe_uniOH2+0.5\n  -cd_music 1 0 0 0 0\n  log_k {kh:.2f}")
    species.append("Goe_uniOH2+0.5")
    sp.append(f" Goe_uniOH-0.5 = Goe_uniO-1.5 + H+\n  -cd_music -1 0 0 0 0\n  log_k {kd:.2f}")
    species.append("Goe_uniO-1.5")
    sp.append(f" Goe_triO-0.5 + H+ = Goe_triOH+0.5\n  -cd_music 1 0 0 0 0\n  log_k {kh:.2f}")
    species.append("Goe_triOH+0.5")
    sp.append(f" Goe_uniOH-0.5 + Na+ = Goe_uniOHNa+0.5\n  -cd_music 0 1 0 0 0\n  log_k {rng.uniform(-1.5, 0):.2f}")
    species.append("Goe_uniOHNa+0.5")
    if rng.random() < 0.5:    # outer-sphere chloride, direct or from the protonated site (monodentate chain)
        sp.append(f" Goe_uniOH-0.5 + H+ + Cl- = Goe_uniOH2Cl-0.5\n  -cd_music 1 -1 0 0 0\n  log_k {kh - rng.uniform(0.2, 1):.2f}")
    else:
        sp.append(f" Goe_uniOH2+0.5 + Cl- = Goe_uniOH2Cl-0.5\n  -cd_music 0 -1 0 0 0\n  log_k {-rng.uniform(0.2, 1):.2f}")
    species.append("Goe_uniOH2Cl-0.5")
    ionof = {"Zn": "Zn+2", "Cd": "Cd+2", "Cu": "Cu+2", "Pb": "Pb+2", "Ca": "Ca+2", "Mg": "Mg+2", "Sr": "Sr+2", "Ba": "Ba+2", "Mn": "Mn+2"}

    def f3(x):
        return ("%.4f" % x).rstrip("0").rstrip(".") if "." in ("%.4f" % x) else "%.4f" % x

    for c in cations:
        ion = ionof[c]
        d0 = rng.choice([0.2, 0.32, 0.5, 0.9])
        n = rng.choice([1, 1, 2, 2, 3])
        chain = rng.random() < 0.5
        pre = "" if n == 1 else str(n)
        prod = {1: f"Goe_uniOH{c}+1.5", 2: f"(Goe_uniOH)2{c}+", 3: f"(Goe_uniOH)3{c}+0.5"}[n]
        lk = rng.uniform(2, 7) + 2.5 * (n - 1)
        if not chain:
            sp.append(f" {pre}Goe_uniOH-0.5 + {ion} = {prod}\n  -cd_music {f3(d0)} {f3(2 - d0)} 0 0 0\n  log_k {lk:.2f}")
        elif rng.random() < 0.6:
            # from the protonated site (distribution 1 0 0): n SOH2 + M = complex + n H+
            hp = "H+" if n == 1 else f"{n}H+"
            sp.append(f" {pre}Goe_uniOH2+0.5 + {ion} = {prod} + {hp}\n  -cd_music {f3(d0 - n)} {f3(2 - d0)} 0 0 0\n  log_k {lk - n * kh:.2f}")
        else:
            # from the deprotonated site (distribution -1 0 0): n SO + n H+ + M = complex
            hp = "H+" if n == 1 else f"{n}H+"
            sp.append(f" {pre}Goe_uniO-1.5 + {hp} + {ion} = {prod}\n  -cd_music {f3(d0 + n)} {f3(2 - d0)} 0 0 0\n  log_k {lk - n * kd:.2f}")
        species.append(prod)
    for a in anions:
        chain = rng.random() < 0.5
        if a == "S(6)":
            f = rng.choice([0.18, 0.25, 0.4])
            lk = rng.uniform(8, 10)
            if not chain:
                sp.append(f" Goe_uniOH-0.5 + H+ + SO4-2 = Goe_uniOSO3-1.5 + H2O\n  -cd_music 1 0 0 {f} -2\n  log_k {lk:.2f}")
            else:
                sp.append(f" Goe_uniOH2+0.5 + SO4-2 = Goe_uniOSO3-1.5 + H2O\n  -cd_music {f3(-2 * f)} {f3(-2 * (1 - f))} 0 0 0\n  log_k {lk - kh:.2f}")
            species.append("Goe_uniOSO3-1.5")
        elif a == "P":
            f = rng.choice([0.3, 0.46, 0.6])
            lk = rng.uniform(27, 31)
            if not chain:
                sp.append(f" 2Goe_uniOH-0.5 + 2H+ + PO4-3 = (Goe_uniO)2PO2-2 + 2H2O\n  -cd_music 2 0 0 {f} -3\n  log_k {lk:.2f}")
            else:
                sp.append(f" 2Goe_uniOH2+0.5 + PO4-3 = (Goe_uniO)2PO2-2 + 2H2O\n  -cd_music {f3(-3 * f)} {f3(-3 * (1 - f))} 0 0 0\n  log_k {lk - 2 * kh:.2f}")
            species.append("(Goe_uniO)2PO2-2")
            if rng.random() < 0.5:   # protonated bidentate written from the bidentate (a chain of depth 2 when that one is a chain)
                sp.append(f" (Goe_uniO)2PO2-2 + H+ = (Goe_uniO)2POOH-\n  -cd_music 0 1 0 0 0\n  log_k {rng.uniform(3, 6):.2f}")
                species.append("(Goe_uniO)2POOH-")
        elif a == "F":
            lk = rng.uniform(8, 10)
            if not chain:
                sp.append(f" Goe_uniOH-0.5 + H+ + F- = Goe_uniF-0.5 + H2O\n  -cd_music 0.4 -0.4 0 0 0\n  log_k {lk:.2f}")
            else:
                sp.append(f" Goe_uniOH2+0.5 + F- = Goe_uniF-0.5 + H2O\n  -cd_music -0.6 -0.4 0 0 0\n  log_k {lk - kh:.2f}")
            species.append("Goe_uniF-0.5")
    text = "SURFACE_MASTER_SPECIES\n" + "\n".join(ms) + "\nSURFACE_SPECIES\n" + "\n".join(sp) + "\n"
    return text, species


# ---------------------------------------------------------------------------------------------- spec
def gen_edl(rng, kind):
    if kind == "cd":
        e = {"type": "cd_music", "caps": [round(rng.uniform(0.5, 2.5), 2), round(rng.uniform(0.5, 5.0), 2)]}
        if rng.random() < 0.3:
            e["dl"] = "donnan"
            e["thickness"] = loguni(rng, 1e-9, 3e-8)
        return e
    r = rng.random()
    if r < 0.27:
        return {"type": "ddl"}
    if r < 0.37:
        return {"type": "no_edl"}
    if r < 0.50:
        e = {"type": "ccm", "cap": round(loguni(rng, 0.2, 5.0), 3)}
        # (constant capacitance with -donnan / -diffuse_layer is rejected by the reader: "Cannot use -diffuse_layer or
        #  -donnan calculation with Constant capacity model" — an input error, outside the property)
        return e
    e = {"type": "ddl"}
    r = rng.random()
    if r < 0.35:
        e["dl"] = "diffuse_layer"
        if rng.random() < 0.5:
            e["thickness"] = loguni(rng, 2e-9, 5e-8)
    elif r < 0.7:
        e["dl"] = "donnan"
        if rng.random() < 0.7:
            e["thickness"] = loguni(rng, 1e-9, 5e-8)
    else:
        e["dl"] = "donnan"
        e["debye"] = round(rng.uniform(0.5, 3.0), 2)
        if rng.random() < 0.5:
            e["limit"] = round(rng.uniform(0.3, 0.95), 2)
    if rng.random() < 0.3:
        e["only_counter_ions"] = True
    return e


def gen_case(rng, idx):
    r = rng.random()
    kind = "hfo" if r < 0.36 else "user" if r < 0.62 else "cd" if r < 0.76 else "phase" if r < 0.9 else "kin"
    db = rng.choice(DBS) if kind == "hfo" else ("phreeqc.dat" if rng.random() < 0.8 else rng.choice(DBS))
    if kind in ("phase", "kin"):
        db = "phreeqc.dat" if rng.random() < 0.7 else "wateq4f.dat"
    spec = {"id": idx, "kind": kind, "db": db}
    spec["temp"] = 25.0 if rng.random() < 0.6 else round(rng.uniform(5, 60), 1)
    spec["pH"] = round(rng.uniform(3.0, 11.0), 2)
    spec["I"] = loguni(rng, 1e-4, 1.0)
    spec["bg"] = list(rng.choice(BG))
    nion = rng.choice([0, 1, 1, 2, 2, 3, 4])
    pool = list(SORB)
    if db == "minteq.v4.dat":
        pool = [p for p in pool if p not in ("B",)]
    ions = rng.sample(pool, nion)
    spec["ions"] = [[e, loguni(rng, *SORB[e])] for e in ions]
    if kind == "hfo" and db in ("wateq4f.dat", "minteq.v4.dat") and rng.random() < 0.5:
        for e in rng.sample(list(REDOX), rng.choice([1, 1, 2])):
            spec["ions"].append([e, loguni(rng, *REDOX[e])])
        spec["pe"] = round(rng.uniform(-2.0, 11.0), 2)
    spec["edl"] = gen_edl(rng, kind)
    spec["equilibrate"] = rng.random() < 0.8
    spec["density_units"] = rng.random() < 0.15
    area = round(loguni(rng, 5, 800), 1)
    mass = loguni(rng, 0.005, 5)
    dens = rng.uniform(0.3, 4.0)      # sites / nm2
    nsite = dens * 1e18 * area * mass / 6.02252e23
    cats = [e for e in ions if e not in ANIONS and e in ("Zn", "Cd", "Cu", "Pb", "Ca", "Mg", "Sr", "Ba", "Mn")]
    ans = [e for e in ions if e in ANIONS]
    surfaces = []
    if kind in ("hfo", "phase", "kin"):
        sites = [["Hfo_w", nsite]]
        if rng.random() < 0.7:
            sites.append(["Hfo_s", nsite * rng.uniform(0.005, 0.05)])
        if rng.random() < 0.15:
            sites = sites[::-1] if len(sites) > 1 else sites
        surfaces.append({"name": "Hfo", "sites": sites, "area": area, "mass": mass})
        spec["defs"] = ""
        spec["species"] = None     # filled from the database listing
    elif kind == "user":
        names = ["Sfa_a"] + (["Sfa_b"] if rng.random() < 0.5 else [])
        s1 = {"name": "Sfa", "sites": [[n, nsite * (1 if i == 0 else rng.uniform(0.01, 0.5))] for i, n in enumerate(names)],
              "area": area, "mass": mass}
        surfaces.append(s1)
        allnames = list(names)
        if rng.random() < 0.35:   # a second, independent surface with its own potential
            surfaces.append({"name": "Sfb", "sites": [["Sfb_a", nsite * rng.uniform(0.1, 3)]],
                             "area": round(loguni(rng, 5, 800), 1), "mass": loguni(rng, 0.005, 5)})
            allnames.append("Sfb_a")
        spec["defs"], spec["species"] = user_defs(rng, allnames, cats, ans)
    else:
        surfaces.append({"name": "Goe", "sites": [["Goe_uni", nsite], ["Goe_tri", nsite * rng.uniform(0.3, 1.2)]],
                         "area": area, "mass": mass})
        spec["defs"], spec["species"] = cd_defs(rng, cats, ans)
    spec["surfaces"] = surfaces
    if kind == "phase":
        ph = "Fe(OH)3(a)" if rng.random() < 0.7 else "Goethite"
        spec["phase"] = {"name": ph, "moles": loguni(rng, 1e-4, 0.05), "prop": [rng.uniform(0.05, 0.3), rng.uniform(0.001, 0.01)],
                         "area_per_mol": round(loguni(rng, 1e3, 1e5), 0)}
    if kind == "kin":
        spec["kin"] = {"m0": loguni(rng, 1e-4, 0.02), "rate": loguni(rng, 1e-9, 1e-6), "prop": [rng.uniform(0.05, 0.3), rng.uniform(0.001, 0.01)],
                       "area_per_mol": round(loguni(rng, 1e3, 1e5), 0), "times": [round(loguni(rng, 10, 1e4), 1) for _ in range(rng.choice([1, 2]))]}
    # reaction stages after the initial surface calculation
    stages = []
    for _ in range(rng.choice([0, 1, 1, 2, 3, 4])):
        r2 = rng.random()
        if r2 < 0.7:
            reag = rng.choice(["NaOH", "HCl", "NaCl", "CaCl2", "ZnCl2", "Na2SO4"])
            tot = loguni(rng, 1e-6, 3e-3)
            stages.append({"reagent": reag, "moles": tot, "steps": rng.choice([1, 1, 2, 3])})
        elif r2 < 0.85:
            stages.append({"temperature": round(rng.uniform(5, 70), 1)})
        elif kind in ("hfo", "user", "cd"):
            # redefinition: SURFACE 1 is defined again (other amount of sites, re-equilibrated), replacing the stored one
            stages.append({"redefine": round(loguni(rng, 0.2, 5.0), 3)})
    if not stages and not spec["equilibrate"]:
        stages.append({"reagent": "NaCl", "moles": 1e-6, "steps": 1})
    spec["stages"] = stages
    spec["save"] = kind in ("phase", "kin") or rng.random() < 0.5
    return spec


# ---------------------------------------------------------------------------------------------- rendering
def site_elements(spec):
    return [s[0] for sf in spec["surfaces"] for s in sf["sites"]]


def surface_block(spec, factor, equilibrate):
    """the SURFACE 1 block; `factor` scales the number of sites (used by the redefinition stages)"""
    L = []
    e = spec["edl"]
    L.append("SURFACE 1")
    if equilibrate:
        L.append(" -equilibrate 1")
    if spec.get("density_units") and spec["kind"] not in ("phase", "kin"):
        L.append(" -sites_units density")
    for si, sf in enumerate(spec["surfaces"]):
        for j, (nm, n) in enumerate(sf["sites"]):
            first = j == 0
            if spec["kind"] == "phase":
                p = spec["phase"]
                line = f" {nm} {p['name']} equilibrium_phase {fmt(p['prop'][min(j, 1)])}" + (f" {fmt(p['area_per_mol'])}" if first else "")
            elif spec["kind"] == "kin":
                k = spec["kin"]
                line = f" {nm} Sorbent kinetic_reactant {fmt(k['prop'][min(j, 1)])}" + (f" {fmt(k['area_per_mol'])}" if first else "")
            else:
                val = n * factor
                if spec.get("density_units"):
                    val = n * 6.02252e23 / (1e18 * sf["area"] * sf["mass"])
                mname = nm if spec["kind"] != "cd" else {"Goe_uni": "Goe_uniOH-0.5", "Goe_tri": "Goe_triO-0.5"}[nm]
                line = f" {mname} {fmt(val)}" + (f" {fmt(sf['area'])} {fmt(sf['mass'])}" if first else "")
            L.append(line)
            if first and e["type"] == "cd_music":
                L.append(f" -capacitances {e['caps'][0]} {e['caps'][1]}")
            if first and e["type"] == "ccm" and si == 0:
                L.append(f" -ccm {e['cap']}")
    if e["type"] == "no_edl":
        L.append(" -no_edl")
    if e["type"] == "cd_music":
        L.append(" -cd_music")
    if e.get("dl") == "diffuse_layer":
        L.append(" -diffuse_layer" + (f" {fmt(e['thickness'])}" if "thickness" in e else ""))
    if e.get("dl") == "donnan":
        if "debye" in e:
            L.append(f" -donnan debye_lengths {e['debye']}" + (f" limit {e['limit']}" if "limit" in e else ""))
        else:
            L.append(" -donnan" + (f" {fmt(e['thickness'])}" if "thickness" in e else ""))
    if e.get("only_counter_ions"):
        L.append(" -only_counter_ions")
    return L


def render(spec, dbspecies=None):
    """input text of a spec.  `dbspecies`: names of the database's surface species (for the MOL/LA read-outs of Hfo)"""
    L = []
    if spec.get("defs"):
        L.append(spec["defs"].rstrip("\n"))
    cat, an = spec["bg"]
    conc = spec["I"] * 1000.0
    L.append("SOLUTION 1")
    L.append(f" temp {spec['temp']}")
    L.append(f" pH {spec['pH']}")
    if "pe" in spec:
        L.append(f" pe {spec['pe']}")
    L.append(" units mmol/kgw")
    # charge balance on the background ion that has to be added for this pH
    zz = {"S(6)": -2.0, "P": -1.5, "F": -1.0, "B": 0.0, "Si": 0.0, "As": -1.0, "Se": -1.5}
    net = sum(zz.get(e, 2.0) * c for e, c in spec["ions"]) + 1000.0 * (10 ** (-spec["pH"]) - 10 ** (spec["pH"] - 14.0))
    if net > 0:
        L.append(f" {cat} {fmt(conc)}")
        L.append(f" {an} {fmt(conc)} charge")
    else:
        L.append(f" {cat} {fmt(conc)} charge")
        L.append(f" {an} {fmt(conc)}")
    for e, c in spec["ions"]:
        if e in (cat, an):
            continue
        L.append(f" {e} {fmt(c)}")
    if spec["kind"] == "phase":
        p = spec["phase"]
        L.append("EQUILIBRIUM_PHASES 1")
        L.append(f" {p['name']} 0 {fmt(p['moles'])}")
    if spec["kind"] == "kin":
        k = spec["kin"]
        L.append("RATES\n Sorbent\n -start\n 10 rate = parm(1)\n 20 save rate * time\n -end")
        L.append("KINETICS 1")
        L.append(f" Sorbent\n  -formula Fe(OH)3 1\n  -m0 {fmt(k['m0'])}\n  -parms {fmt(k['rate'])}")
        L.append("  -steps " + " ".join(fmt(t) for t in k["times"]))
    e = spec["edl"]
    L += surface_block(spec, 1.0, spec["equilibrate"])
    # read-outs
    heads, stmts = ["cb", "mu", "epsr", "tk"], ['20 PUNCH MU, EPS_R, TK']
    ln = 30
    for sf in spec["surfaces"]:
        c = sf["name"]
        keys = ["psi", "sigma", "charge", "water"] + (["psi1", "psi2", "sigma1", "sigma2", "charge1", "charge2"] if e["type"] == "cd_music" else [])
        for k in keys:
            heads.append(f"{k}:{c}")
        stmts.append(f"{ln} PUNCH " + ", ".join(f'EDL("{k}","{c}")' for k in keys))
        ln += 10
        for nm, _ in sf["sites"]:
            heads.append(f"surf:{nm}")
            stmts.append(f'{ln} PUNCH SURF("{nm}","{c}")')
            ln += 10
    names = spec.get("species")
    if names is None:
        els = site_elements(spec)
        names = [n for n in (dbspecies or []) if any(n.startswith(el) for el in els)]
    for n in names:
        heads.append(f"mol:{n}")
        heads.append(f"la:{n}")
        stmts.append(f'{ln} PUNCH MOL("{n}"), LA("{n}")')
        ln += 10
    if spec["kind"] == "phase":
        heads.append("equi")
        stmts.append(f'{ln} PUNCH EQUI("{spec["phase"]["name"]}")')
        ln += 10
    if spec["kind"] == "kin":
        heads.append("kin")
        stmts.append(f'{ln} PUNCH KIN("Sorbent")')
        ln += 10
    L.append("SELECTED_OUTPUT 1\n -reset false")
    L.append("USER_PUNCH 1\n -headings " + " ".join(heads))
    L.append(' 10 PUNCH CALLBACK(0,0,"dump")')
    L += [" " + s for s in stmts]
    if spec.get("save"):
        L.append("SAVE solution 1\nSAVE surface 1")
        if spec["kind"] == "phase":
            L.append("SAVE equilibrium_phases 1")
    L.append("END")
    for st in spec["stages"]:
        if "redefine" in st:
            L += surface_block(spec, st["redefine"], True)
            if spec.get("save"):
                L.append("SAVE surface 1")
            L.append("END")
            continue
        L.append("USE solution 1\nUSE surface 1")
        if spec["kind"] == "phase":
            L.append("USE equilibrium_phases 1")
        if spec["kind"] == "kin":
            L.append("USE kinetics 1")
        if "temperature" in st:
            L.append(f"REACTION_TEMPERATURE 1\n {st['temperature']}")
        else:
            L.append(f"REACTION 1\n {st['reagent']} 1\n {fmt(st['moles'])} moles in {st['steps']} steps")
        if spec.get("save"):
            L.append("SAVE solution 1\nSAVE surface 1")
            if spec["kind"] == "phase":
                L.append("SAVE equilibrium_phases 1")
        L.append("END")
    return "\n".join(L) + "\n"


def shrink_candidates(spec):
    """simpler specs to try when a case fails"""
    import copy
    out = []
    if spec["stages"]:
        s = copy.deepcopy(spec); s["stages"] = s["stages"][:-1]
        if s["stages"] or s["equilibrate"]:
            out.append(s)
    for i in range(len(spec["ions"])):
        if spec.get("defs"):
            break     # user definitions mention the ions
        s = copy.deepcopy(spec); del s["ions"][i]; out.append(s)
    if len(spec["surfaces"]) > 1 and not spec.get("defs"):
        s = copy.deepcopy(spec); s["surfaces"] = s["surfaces"][:1]; out.append(s)
    for sf_i, sf in enumerate(spec["surfaces"]):
        if len(sf["sites"]) > 1 and spec["kind"] not in ("cd",):
            s = copy.deepcopy(spec); s["surfaces"][sf_i]["sites"] = sf["sites"][:1]; out.append(s)
    if spec["temp"] != 25.0:
        s = copy.deepcopy(spec); s["temp"] = 25.0; out.append(s)
    if spec["edl"].get("only_counter_ions"):
        s = copy.deepcopy(spec); del s["edl"]["only_counter_ions"]; out.append(s)
    return out
