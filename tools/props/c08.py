"""C08 — bad input is reported as errors; it never crashes or poisons the instance.

Layer L (proved, Properties/C08.lean over Model/ErrAcct.lean): the error accounting of one API call as a state machine over the
PHRQ_io event stream — return value non-zero iff an ERROR event (`retval_nonzero_iff_error`), error/warning strings = this call's
events only (`errors_this_call_only`), nothing is routed after a STOP event (`stop_unwinds_to_api`), a successful LoadDatabase after a
failed call returns the wrapper's error state to fresh values (`failed_then_load_fresh`).
Layer N (the bulk of this property; exploration, not proof): every fuzz case runs in a forked child of harness/ph_fuzz.cpp linked against an
ASan+UBSan build of the library with exit/_exit/abort interposed and every exception caught at the API boundary, so that a signal, a
sanitizer report, a process-exit attempt or an escaping exception is a recorded *result*.  Per case: base database load (precondition
"no failed call since the last successful load"), optional successful history calls, the judged call(s) with the recorded ERROR/WARNING
events, return value and strings compared with the model's prediction (`pmodel route` evaluates Model/Route's errStrChunks / warnStrChunks /
errCount, the functions Model/ErrAcct is built on), then LoadDatabase + probe run compared with a new instance (C07 oracle).
Classes reported: (a) crash / UB / exit / escaping exception, (b) return value vs ERROR events, (c) error text of another call,
(d) poisoned state after the reload."""
import concurrent.futures
import hashlib
import os
import re
import shutil
import subprocess
import tempfile
import time

import gen_erracct
import vlib
from gens import fuzz as F

ASAN_FLAGS = "-fsanitize=address,undefined -fno-sanitize-recover=undefined -g1 -O1 -fno-omit-frame-pointer"
ASAN_ENV = ("detect_leaks=0:allocator_may_return_null=1:exitcode=86:max_allocation_size_mb=3000:hard_rss_limit_mb=6000:"
            "handle_abort=1:detect_stack_use_after_return=0:symbolize=1")
UBSAN_ENV = "print_stacktrace=1"
WORK = vlib.BUILD / "c08_work"
PROBE = ("SOLUTION 1\n pH 7\n Na 1\n Cl 1\nSELECTED_OUTPUT 1\n -totals Na Cl\n -ionic_strength true\nUSER_PUNCH 1\n -headings x\n 10 PUNCH TOT(\"Cl\") * 2\n"
         "USER_PRINT\n 10 PRINT \"probe\", MU\nEND\nUSE solution 1\nREACTION 1\n NaCl 1\n 0.01 in 2 steps\nSAVE solution 2\nEND\nDUMP\n -all\nEND\n")


def hx(s):
    if isinstance(s, str):
        s = s.encode("utf-8", "replace")
    return s.hex() if s else "-"


def unhx(h):
    return b"" if h == "-" else bytes.fromhex(h)


def txt(bts, n=400):
    return bts[:n].decode("utf-8", "replace")


# ------------------------------------------------------------------------------------------------ cases

GENERIC_PROBE = "SOLUTION 1\n pH 7\n Na 1\n Cl 1\nUSER_PRINT\n 10 PRINT \"probe\", MU, TOT(\"Na\")\nEND\nUSE solution 1\nREACTION 1\n NaCl 1\n 0.01\nEND\nDUMP\n -all\nEND\n"


def mk_case(family, tag, ops, db=F.PHREEQC_DAT, sw=(), fn=(), pre=(), files=None, probe=PROBE, timeout=None, reload=None, reload_str=False):
    """ops / pre: list of (kind, payload); kind in run runfile acc loaddb loaddbstr; payload bytes (text) or str (path)"""
    return dict(family=family, tag=tag, db=db, sw=list(sw), fn=list(fn), pre=list(pre), ops=list(ops), files=files or {}, probe=probe,
                timeout=timeout, reload=reload, reload_str=reload_str)


def case_to_json(c):
    j = dict(c)
    j["ops"] = [[k, hx(p)] for k, p in c["ops"]]
    j["pre"] = [[k, hx(p)] for k, p in c["pre"]]
    j["files"] = {k: hx(v) for k, v in c["files"].items()}
    j["input_text"] = [txt(p if isinstance(p, bytes) else p.encode(), 3000) for _, p in c["ops"]]
    return j


def case_from_json(j):
    c = dict(j)
    c["ops"] = [(k, unhx(p)) for k, p in j["ops"]]
    c["pre"] = [(k, unhx(p)) for k, p in j.get("pre", [])]
    c["files"] = {k: unhx(v) for k, v in j.get("files", {}).items()}
    c["sw"] = [tuple(x) for x in j.get("sw", [])]
    c["fn"] = [tuple(x) for x in j.get("fn", [])]
    c.pop("input_text", None)
    return c


HANG_INPUT = b"RATES\n R1\n -start\n 10 SAVE 2\n -end\nSOLUTION 1\n Na 1\n Cl 1\nKINETICS 1\n R1\n -formula NaCl 1\n -m0 1\n -steps 10\nEND\n"
WARN_PRE = b"SOLUTION 1\n pH 7\n Na 1\n Xx 1\nEND\n"       # succeeds (return 0) with a two-line warning


def entry_variant(rng, text, c):
    """deliver the same text through RunString / RunFile / AccumulateLine+RunAccumulated"""
    r = rng.random()
    if r < 0.7:
        return [("run", text)]
    if r < 0.85:
        name = "in_%s.pqi" % hashlib.sha1(text).hexdigest()[:10]
        c["files"][name] = text
        return [("runfile", name.encode())]
    return [("acc", text)]


SEL_NUMBERS = [1, 1, 1, 2, 3, 5, 10]


def switch_config(rng):
    """errors interact with the sinks that are open when they are raised: every input is run under one of these configurations.
    (selected-output switches are per user number: `cur n` selects the number the following selfile/selstr apply to)"""
    r = rng.random()
    sw = [("errstr", 1)]
    if r < 0.35:
        return sw + [("outstr", int(rng.random() < 0.4))], "strings-only"
    if r < 0.50:
        return sw + [("outstr", 1), ("logstr", 1), ("dumpstr", 1), ("selstr", 1)], "all-strings"
    if r < 0.70:
        sw += [("outfile", 1), ("errfile", 1), ("logfile", 1), ("dumpfile", 1)]
        for n in sorted(set(rng.sample(SEL_NUMBERS, 3))):
            sw += [("cur", n), ("selfile", 1)]
        return sw + [("cur", 1)], "all-files"
    if r < 0.85:
        for n in sorted(set(rng.sample(SEL_NUMBERS, rng.choice([1, 2])))):
            sw += [("cur", n), ("selfile", 1)] + ([("selstr", 1)] if rng.random() < 0.4 else [])
        return sw + [("cur", rng.choice([1, 1, 2]))], "selected-output-file"
    for name in ("outstr", "outfile", "errfile", "logstr", "logfile", "dumpstr", "dumpfile"):
        if rng.random() < 0.5:
            sw.append((name, 1))
    for n in sorted(set(rng.sample(SEL_NUMBERS, 2))):
        sw += [("cur", n), ("selfile", int(rng.random() < 0.6)), ("selstr", int(rng.random() < 0.5))]
    return sw + [("cur", 1)], "mixed"


def gen_case(rng, seeds):
    r = rng.random()
    sw, swname = switch_config(rng)
    if rng.random() < 0.06:
        sw.append(("erron", 0))
    elif rng.random() < 0.05:
        sw[0] = ("errstr", 0)
    pre = [("run", WARN_PRE)] if rng.random() < 0.25 else []
    c = mk_case("?", "", [], sw=sw, pre=pre)
    c["switches"] = swname
    if r < 0.30:
        name, text, db = rng.choice(seeds)
        t, kinds = F.mutate(rng, text)
        c.update(family="mutate", tag=name + ":" + "+".join(kinds), db=db)
        c["ops"] = entry_variant(rng, t, c)
    elif r < 0.50:
        t, keys = F.grammar_input(rng)
        c.update(family="grammar", tag="+".join(keys))
        c["ops"] = entry_variant(rng, t, c)
    elif r < 0.62:
        t, kind = F.basic_input(rng)
        c.update(family="basic", tag=kind)
        c["ops"] = entry_variant(rng, t, c)
    elif r < 0.69:
        t, kind = F.entities_input(rng)
        c.update(family="entities", tag=kind)
        c["ops"] = entry_variant(rng, t, c)
    elif r < 0.74:
        t, kind = F.extreme_input(rng)
        c.update(family="extreme", tag=kind)
        c["ops"] = entry_variant(rng, t, c)
    elif r < 0.77:
        t, kind = F.bytes_input(rng)
        c.update(family="bytes", tag=kind)
        c["ops"] = entry_variant(rng, t, c)
    elif r < 0.85:
        t, tag = F.database_text(rng)
        c.update(family="database", tag=tag)
        if rng.random() < 0.6:
            c["ops"] = [("loaddbstr", t)]
        else:
            c["files"]["db_mut.dat"] = t
            c["ops"] = [("loaddb", b"db_mut.dat")]
    elif r < 0.865:
        t, db, kind = F.isotope_input(rng)
        c.update(family="references", tag=kind, db=db)
        c["ops"] = entry_variant(rng, t, c)
    elif r < 0.885:
        t, kind = F.midrecord_input(rng)
        c.update(family="midrecord", tag=kind)
        c["ops"] = entry_variant(rng, t, c)
        if rng.random() < 0.7 and c["switches"] in ("strings-only", "all-strings"):      # this family is about open sinks
            c["sw"], c["switches"] = [("errstr", 1), ("outfile", 1), ("dumpfile", 1), ("cur", 1), ("selfile", 1), ("cur", 2), ("selfile", 1), ("cur", 1)], "all-files"
    elif r < 0.91:
        t, kind = F.numerics_input(rng)
        c.update(family="numerics", tag=kind)
        c["ops"] = entry_variant(rng, t, c)
    elif r < 0.95 and MULTISIM_SHARE[0]:
        t, files, kind = F.multisim_input(rng)
        c.update(family="multisim", tag=kind)
        c["files"].update(files)
        c["ops"] = entry_variant(rng, t, c)
    else:
        fc = F.file_case(rng)
        c.update(family="files", tag=fc["kind"])
        c["sw"] += [(a, b) for a, b in fc.get("sw", [])]
        c["fn"] = [(a, b.encode("utf-8", "surrogateescape") if isinstance(b, str) else b) for a, b in fc.get("fn", [])]
        for k, p in fc["ops"]:
            if k == "runfile_path":
                c["ops"].append(("runfile", p.encode("latin-1", "replace")))
            elif k == "loaddb_path":
                c["ops"].append(("loaddb", p.encode("latin-1", "replace")))
            elif k == "runfile_text":
                name, text, db = rng.choice(seeds)
                t, kinds = F.mutate(rng, text)
                c["files"]["in_file.pqi"] = t
                c["db"] = db
                c["ops"].append(("runfile", b"in_file.pqi"))
            else:
                c["ops"].append((k, p))
    if c["ops"] and c["ops"][0][0] in ("run", "runfile", "acc") and rng.random() < 0.3:
        make_history(rng, c, seeds)
    return c


MULTISIM_SHARE = [True]
QUICK = [True]
_DBS = []


def make_history(rng, c, seeds):
    """turn a single-call case into a history: 1-3 calls (the generated one first or last, other bad / good calls around it), then the reload with
    ANY shipped database (END-terminated or read to end-of-file), as a file or as a string, and a probe every database can run"""
    if not _DBS:
        _DBS.extend(F.shipped_databases())
    extra = []
    for _ in range(rng.choice([0, 1, 1, 2])):
        if rng.random() < 0.6:
            t, files, kind = F.multisim_input(rng)
            c["files"].update(files)
        else:
            t = F.b(rng.choice(F.VALID_SIMS)) if rng.random() < 0.4 else F.bad_sim(rng)
        extra.append(rng.choice([("run", t), ("run", t), ("acc", t)]))
    c["ops"] = (c["ops"] + extra) if rng.random() < 0.7 else (extra + c["ops"])
    path, has_end = rng.choice(_DBS if QUICK[0] is False else [d_ for d_ in _DBS if os.path.getsize(d_[0]) < 450000])
    c["reload"] = path
    c["reload_str"] = rng.random() < 0.4
    c["probe"] = GENERIC_PROBE
    c["tag"] = f"history[{len(c['ops'])} calls; reload {path.rsplit('/', 1)[-1]}{'' if has_end else ' (no END)'}{' as string' if c['reload_str'] else ''}] " + c["tag"]
    c["history"] = dict(calls=len(c["ops"]), reload=path.rsplit("/", 1)[-1], reload_has_end=has_end, as_string=c["reload_str"])
    return c


EDITOR_COMMANDS = ["NEW", 'LOAD "x"', 'MERGE "x"', "DEL 10", "DEL 10-20", "RUN", "RENUM", "BYE", "LIST", 'SAVE "file"']


def basic_editor_cases():
    """BASIC editor commands inside stored programs (65899b95: NEW/LOAD/MERGE/DEL freed the running program while its owner kept the pointers):
    each command as a numbered program line and as an immediate statement (no line number: executed while the block is compiled), in every block
    type that owns a program; plus the two inputs the thorough tier found"""
    C = []
    sol = "SOLUTION 1\n pH 7\n Na 1\n Cl 1\n"

    def block(kind, lines):
        body = "\n".join(lines) + "\n"
        if kind == "RATES":
            return sol + "RATES\nR1\n -start\n" + body + " -end\nKINETICS 1\n R1\n -formula NaCl 1\n -m0 1\n -steps 10 in 2\nEND\n"
        if kind == "USER_PUNCH":
            return sol + "SELECTED_OUTPUT 1\n -reset false\nUSER_PUNCH 1\n -headings a\n" + body + "END\n"
        if kind == "USER_PRINT":
            return sol + "USER_PRINT\n" + body + "END\n"
        return sol + "SELECTED_OUTPUT 1\n -reset false\n -calculate_values cv\nCALCULATE_VALUES\ncv\n -start\n" + body + " -end\nEND\n"

    for kind in ("RATES", "USER_PUNCH", "USER_PRINT", "CALCULATE_VALUES"):
        last = {"RATES": " 30 SAVE 1e-6 * TIME", "USER_PUNCH": " 30 PUNCH 1", "USER_PRINT": " 30 PRINT 1", "CALCULATE_VALUES": " 30 SAVE 1"}[kind]
        for cmd in EDITOR_COMMANDS:
            name = re.sub(r"[^A-Za-z0-9]+", "", cmd)
            if cmd != "RUN":           # a numbered `RUN` restarts the program from its own line: an endless loop the program asks for (like `20 GOTO 10`)
              C.append(mk_case("corpus", f"basic-editor-{name}-numbered-{kind}", [("run", block(kind, [" 10 x = 1", " 20 " + cmd, last]).encode())],
                               sw=[("errstr", 1), ("cur", 1), ("selfile", 1)]))
            C.append(mk_case("corpus", f"basic-editor-{name}-immediate-{kind}", [("run", block(kind, [" 10 x = 1", " " + cmd, last]).encode())],
                             sw=[("errstr", 1), ("selstr", 1)]))
    C.append(mk_case("corpus", "basic-new-huge-line-rates-cvode", [("run", (sol + "RATES\nR1\n -start\n 10 x = 1\n99999999999 NEW\n 30 SAVE 1e-6 * TIME\n -end\n"
                     "KINETICS 1\n R1\n -formula NaCl 1\n -m0 1\n -steps 1 2 3\n -cvode true\nEND\n").encode())], sw=[("errstr", 1)]))
    C.append(mk_case("corpus", "basic-new-intmax-line-calculate-values", [("run", (sol + "SELECTED_OUTPUT 1\n -calculate_values cv\nCALCULATE_VALUES\ncv\n -start\n"
                     "2147483647 NEW\n -end\nEND\n").encode())], sw=[("errstr", 1), ("selstr", 1)]))
    return C


def corpus_cases():
    """fixed cases, always run first: the listed known finding, the defects found while building this check, the gtest-style classics"""
    C = []

    def add(tag, text, **kw):
        C.append(mk_case("corpus", tag, [("run", text.encode())], sw=[("errstr", 1), ("outstr", 1)], **kw))
    add("basic-peek", "SOLUTION 1\nSELECTED_OUTPUT\nUSER_PUNCH\n10 PUNCH PEEK(8)\nEND\n")
    add("basic-poke", "SOLUTION 1\nSELECTED_OUTPUT\nUSER_PUNCH\n10 POKE 8, 1\nEND\n")
    add("unknown-element", "SOLUTION 1\n Xx 1\nEND\n")
    add("unknown-option", "SOLUTION 1\n -bogus 1\nEND\n")
    add("undefined-solution", "USE solution 77\nEND\n")
    add("unknown-phase", "SOLUTION 1\nEQUILIBRIUM_PHASES 1\n Nophase 0 1\nEND\n")
    add("basic-syntax", "SOLUTION 1\nUSER_PRINT\n10 PRINT (1 +\nEND\n")
    add("include-missing", "INCLUDE$ nosuchfile.inc\nSOLUTION 1\nEND\n")
    add("conv-fail", (vlib.REPO / "gtest" / "conv_fail.in").read_text() if (vlib.REPO / "gtest" / "conv_fail.in").exists() else "SOLUTION 1\nEND\n")
    add("rate-pk-freed-name", "SOLUTION 1\nUSER_PRINT\n10 PRINT RATE_PK(\"Nosuchmineral\")\nEND\n")
    add("str-1e300", "SOLUTION 1\nSELECTED_OUTPUT\nUSER_PUNCH\n10 PUNCH STR$(1e300)\nEND\n")
    add("mid-beyond-end", "SOLUTION 1\nSELECTED_OUTPUT\nUSER_PUNCH\n10 PUNCH MID$(\"abc\", 5)\nEND\n")
    add("unnumbered-read", "SOLUTION 1\nUSER_PRINT\nREAD x\nEND\n")
    add("modify-same-simulation", "SOLUTION 5\n pH 7\n Ca 1\nSOLUTION_MODIFY 5\n -totals\n  Na 0.001\nEND\n")
    add("gas-unknown-then-components", "SOLUTION 1\nGAS_PHASE 1\n -fixed_pressure\n Nosuchgas(g) 0.1\nEND\n")
    add("long-token-inverse", "INVERSE_MODELING\n-phases\n" + "1" * 400 + "\n")
    add("long-formula-gfw", "SOLUTION\nAlkalinity 141.682 as " + "x" * 400 + "\nEND\n")
    add("advection-negative-cells", "ADVECTION\n-cells -5\n")
    add("raw-huge-number", "EXCHANGE_RAW 99999999999\n")
    add("long-kinetics-name", "KINETICS\n" + "a" * 300 + "\n")
    add("long-basic-line", "RATES\nR1\n\"" + "y" * 300 + "\"\nSOLUTION\nKINETICS\nR1\n")
    add("ss-unknown-then-components", "SOLID_SOLUTIONS\nss\n-comp\n")
    add("advection-cells-minus-one", "ADVECTION\n-cells -1\n")
    add("long-line-before-keyword", "REACTION_TEMPERATURE\n-parms\n0." + "0" * 400 + "\n")
    add("transport-stagnant-negative", "TRANSPORT\n-cells 1000000\n-stagnant -1\n")
    add("basic-del-in-program", "RATES\nR1\n10 DEL GOSUB\nSOLUTION\nKINETICS\nR1\n")
    add("spread-backslash-row", "SPREAD_SOLUTION\n-1-3\n\\\n")
    add("basic-huge-line-number", "RATES\n R\n -start\n1111111111111111111111 SAVE TIME\n -end\nSOLUTION 1\nKINETICS 1\n R\n -steps 1\nEND\n")
    add("charge-int-min", "SURFACE_SPECIES\n2H2O -2147483648\n")
    add("gas-raw-bad-type", "GAS_PHASE_RAW\n-type -63.67\n")
    add("extreme-integer-stagnant", "TRANSPORT\n-stagnant 2147483647\n")
    C.append(mk_case("corpus", "long-species-equation-db", [("loaddb", b"db_long.dat")], sw=[("errstr", 1)],
                     files={"db_long.dat": b"SOLUTION_SPECIES\nMn+2 + 2 NO3- = Mn(NO3)2" + b" a" * 200 + b"\n"}))
    add("spread-unnumbered-row-then-reload", "SOLUTION_SPREAD\nNumber\tpH\nx\t7\nEND\n")                     # listed key asan-heap-use-after-free:clear-prep
    add("immediate-for-in-user-punch", "SOLUTION\nSELECTED_OUTPUT\nUSER_PUNCH\nFOR i = 1 TO 3\n10 PUNCH 1\nEND\n")   # listed key …clearloops-PBasic::cmdnew
    add("spread-negative-number-row", "SOLUTION_SPREAD\nNumber\tpH\tNa\tCl\tCa\n-4\t6.5\t1\t1\t1\n")     # ad53b668
    add("spread-unclassifiable-token", "SPREAD_SOLUTION\n+ 1;5\n")                                     # 7cbd5ebd
    rates = "RATES\nDecay\n-start\n10 rate = 1e-3 * M\n20 SAVE rate * TIME\n-end\n"
    kin = "KINETICS 1\nDecay\n -formula NaCl 1\n -m0 1\n -steps 1000 in 2\n -cvode true\n"
    add("cvode-exhausted-1", "SOLUTION 1\n" + rates + kin + " -cvode_steps 1\n -bad_step_max 1\nEND\n")              # seeded/C08b: dangling kinetics_cvode_mem
    add("cvode-exhausted-3", "SOLUTION 1\n" + rates + kin + " -cvode_steps 2\n -bad_step_max 3\nEND\n")
    add("cvode-exhausted-with-phases", "SOLUTION 1\nEQUILIBRIUM_PHASES 1\n Calcite 0 1\n" + rates + kin + " -cvode_steps 1\n -bad_step_max 2\nEND\n")
    add("rk-exhausted", "SOLUTION 1\n" + rates.replace("1e-3 * M", "1e6 * M") + "KINETICS 1\nDecay\n -formula NaCl 1\n -m0 1\n -steps 1000 in 2\n -cvode false\n"
        " -runge_kutta 6\n -bad_step_max 1\n -tol 1e-14\nEND\n")
    add("surface-raw-bad-enum", "SURFACE_RAW\n-sites_units -2147483648\n")
    sit, iso, core = (str(F.DBDIR / n) for n in ("sit.dat", "iso.dat", "core10.dat"))
    C.append(mk_case("corpus", "unread-input-then-reload-no-END-db", [("run", b"SOLUTION 1\n -bogus\nEND\nSOLUTION 2\n Na 1\nEND\n")], sw=[("errstr", 1)],
                     reload=sit, probe=GENERIC_PROBE))
    C.append(mk_case("corpus", "error-inside-include-then-reload-string", [("run", b"SOLUTION 1\nINCLUDE$ inc_c.pqi\nEND\nSOLUTION 2\nEND\n")], sw=[("errstr", 1)],
                     files={"inc_c.pqi": b"EQUILIBRIUM_PHASES 1\n Nophase 0 1\nEND\nSOLUTION 3\n Cl 1\nEND\n"}, reload=iso, reload_str=True, probe=GENERIC_PROBE))
    C.append(mk_case("corpus", "missing-include-middle-then-reload", [("run", b"SOLUTION 1\n Na 1\nINCLUDE$ nosuch_c08.inc\nEND\nSOLUTION 2\nEND\n"),
                                                                     ("run", b"USE solution 9\nEND\nSOLUTION 4\nEND\n")], sw=[("errstr", 1)],
                     reload=core, probe=GENERIC_PROBE))
    C.append(mk_case("corpus", "first-load-without-master-species", [("loaddbstr", b"SOLUTION_SPECIES\nH2O = H2O\n log_k 0\n")], sw=[("errstr", 1)]))
    head = "SOLUTION 1\n pH 7\n Ca 1\n Cl 2\nSELECTED_OUTPUT 1\n -reset false\n -pH true\n"
    filesw = [("errstr", 1), ("outfile", 1), ("dumpfile", 1), ("cur", 1), ("selfile", 1)]
    twins = {
        "punch-type-mismatch": head + "USER_PUNCH 1\n -headings a\n 10 a$ = 1 + \"x\"\n 20 PUNCH a$\nEND\n",
        "punch-truncated-statement": head + "USER_PUNCH 1\n -headings a\n 10 PUNCH TOT(\"Ca\"\nEND\n",
        "punch-next-without-for": head + "USER_PUNCH 1\n -headings a\n 10 FOR i = 1 TO 3\n 20 PUNCH i\n 30 NEXT j\nEND\n",
        "calculate-values-error-at-punch": head + " -calculate_values cv\nCALCULATE_VALUES\ncv\n -start\n 10 x = 1 +\n 20 SAVE x\n -end\nEND\n",
        "punch-error-in-second-simulation": head + "END\nUSER_PUNCH 1\n -headings a\n 10 PUNCH TOT(\"Ca\") / \"x\"\nUSE solution 1\nREACTION 1\n NaCl 1\n 1 mmol\nEND\n",
        "print-error-with-output-file": "SOLUTION 1\n Na 1\nUSER_PRINT\n 10 PRINT 1 + \"x\"\nEND\n",
        "punch-error-in-transport-cell": "SOLUTION 0-3\n Na 1\n Cl 1\nEND\nSELECTED_OUTPUT 1\n -totals Na\nUSER_PUNCH 1\n -headings a\n 10 IF CELL_NO = 2 THEN PUNCH 1 + \"x\" ELSE PUNCH 1\n"
                                         "TRANSPORT\n -cells 3\n -shifts 2\nEND\n",
    }
    for tag, text in twins.items():
        C.append(mk_case("corpus", tag + "-files-on", [("run", text.encode())], sw=filesw))
        C.append(mk_case("corpus", tag + "-strings", [("run", text.encode())], sw=[("errstr", 1), ("outstr", 1), ("selstr", 1)]))
    sol1 = "SOLUTION 1\n Na 1\n Cl 1\nEND\n"
    cv1 = "CALCULATE_VALUES\n Alpha_one\n -start\n 10 SAVE 1.001\n -end\n"
    refs = {
        "alpha-without-calculate-value": "ISOTOPE_ALPHAS\n Alpha_undefined\n" + sol1,                                   # seeded/C08e
        "alpha-alone-then-solution": "ISOTOPE_ALPHAS\n Alpha_undefined\nEND\n" + sol1,
        "alpha-late": sol1 + "ISOTOPE_ALPHAS\n Alpha_late\nUSE solution 1\nREACTION_TEMPERATURE 1\n 30\nEND\n",
        "alpha-misspelt-in-second-simulation": cv1 + "ISOTOPE_ALPHAS\n Alpha_one\n" + sol1 + "ISOTOPE_ALPHAS\n Alpha_onee\nSOLUTION 2\n K 1\n Cl 1\nEND\n",
        "alpha-missing-named-expression": cv1 + "ISOTOPE_ALPHAS\n Alpha_one Log_alpha_missing\n" + sol1,
        "alpha-print-off": "PRINT\n -isotope_alphas false\nISOTOPE_ALPHAS\n Alpha_undefined\n" + sol1,
        "ratio-without-isotope": "ISOTOPE_RATIOS\n R(13C)_test 13C\n" + sol1,
        "selected-output-undefined-calculate-value": "SOLUTION 1\n Na 1\n Cl 1\nSELECTED_OUTPUT 1\n -calculate_values no_such_value\nEND\n",
        "alpha-control-defined": cv1 + "ISOTOPE_ALPHAS\n Alpha_one\n" + sol1,
    }
    for tag, text in refs.items():
        C.append(mk_case("corpus", "ref-" + tag, [("run", text.encode())], sw=[("errstr", 1), ("outstr", 1)]))
        if tag.startswith("alpha-without") or tag.startswith("alpha-misspelt"):
            C.append(mk_case("corpus", "ref-" + tag + "-iso.dat", [("run", text.encode())], sw=[("errstr", 1)], db=str(F.DBDIR / "iso.dat"), probe=GENERIC_PROBE))
    xb = "SOLUTION 1\n pH 7\n Ca 1\n C 2\nEQUILIBRIUM_PHASES 1\n Calcite 0 1\n"
    xk = "RATES\nCalcite\n-start\n10 SAVE 1e-6*TIME\n-end\nKINETICS 1\n Calcite\n -m0 1\n -steps 10\n"
    add("exchange-unknown-element-related-phase", xb + "EXCHANGE 1\n XZz Calcite equilibrium_phase 0.1\nEND\n")
    add("exchange-unknown-element-related-kinetics", xb + xk + "EXCHANGE 1\n XZz Calcite kinetic_reactant 0.1\nEND\n")
    add("surface-unknown-element-related-phase", xb + "SURFACE 1\n Hfo_wZz Calcite equilibrium_phase 0.1 1e5\nEND\n")
    add("surface-unknown-element-related-kinetics", xb + xk + "SURFACE 1\n Hfo_wZz Calcite kinetic_reactant 0.1 1e5\nEND\n")
    C.extend(basic_editor_cases())
    C.append(mk_case("corpus", "kinetics-constant-rate", [("run", HANG_INPUT)], sw=[("errstr", 1)], timeout=5))
    C.append(mk_case("corpus", "load-missing-after-warning", [("loaddb", b"/nonexistent_dir_c08/x.dat")], sw=[("errstr", 1)], pre=[("run", WARN_PRE)]))
    C.append(mk_case("corpus", "load-missing-fresh", [("loaddb", b"/nonexistent_dir_c08/x.dat")], sw=[("errstr", 1)]))
    C.append(mk_case("corpus", "runfile-missing", [("runfile", b"nosuch_c08.pqi")], sw=[("errstr", 1)], pre=[("run", WARN_PRE)]))
    C.append(mk_case("corpus", "loaddb-directory", [("loaddb", b".")], sw=[("errstr", 1)]))
    C.append(mk_case("corpus", "loaddbstr-empty", [("loaddbstr", b"")], sw=[("errstr", 1)]))
    C.append(mk_case("corpus", "two-failing-calls", [("run", b"SOLUTION 1\n -bogus\nEND\n"), ("run", b"USE solution 9\nEND\n")], sw=[("errstr", 1)]))
    C.append(mk_case("corpus", "unwritable-all", [("run", PROBE.encode())], sw=[("errstr", 1), ("outfile", 1), ("errfile", 1), ("logfile", 1), ("dumpfile", 1), ("selfile", 1)],
                     fn=[("out", b"/nonexistent_dir_c08/o"), ("err", b"/dev/null/x"), ("log", b"."), ("dump", b"/dev/full"), ("sel", b"")]))
    # the listed hang first: its confirmation (HANG_CPU seconds of CPU alone on the plain build) then overlaps with the rest of the run
    C.sort(key=lambda c_: c_["tag"] != "kinetics-constant-rate")
    return C


# ------------------------------------------------------------------------------------------------ running

def case_script(c, cid, timeout):
    L = [f"case {cid} {c.get('timeout') or timeout}", f"db {hx(c['db'])}"]
    L += [f"sw {a} {int(b)}" for a, b in c["sw"]]
    L += [f"fn {a} {hx(b)}" for a, b in c["fn"]]
    L += [f"pre {k} {hx(p)}" for k, p in c["pre"]]
    L += [f"op {k} {hx(p)}" for k, p in c["ops"]]
    if c.get("probe"):
        L.append(f"probe {hx(c['probe'])}")
    if c.get("reload"):
        L.append(f"reload {hx(c['reload'])}" + (" str" if c.get("reload_str") else ""))
    L.append("go")
    return L


def parse_results(out):
    res, cur = {}, None
    for ln in out.splitlines():
        if ln.startswith("CASE "):
            cur = dict(lines=[], end=None)
            res[ln.split(" ")[1]] = cur
        elif ln.startswith("END ") and cur is not None:
            w = ln.split(" ")
            cur["end"] = dict(status=w[2].split("=")[1], code=int(w[3].split("=")[1]), stderr=unhx(w[4].split("=", 1)[1]).decode("utf-8", "replace"),
                              cpu=float(w[5].split("=")[1]) if len(w) > 5 else 0.0)
            cur = None
        elif cur is not None:
            cur["lines"].append(ln)
    return res


HANG_CPU = 60          # CPU seconds a case must burn alone on the plain build, without progress, before "does not return" is a verdict


def wall_limit(cpu_seconds):
    """outer wall-clock guard of one case (harness default): only ever means "not judged" """
    return 30.0 * cpu_seconds + 120.0


def run_batch(exe, batch, timeout, keep=False):
    """batch: list of (cid, case). Returns {cid: parsed}"""
    WORK.mkdir(exist_ok=True)
    d = tempfile.mkdtemp(dir=WORK)
    try:
        script = []
        for cid, c in batch:
            cd = os.path.join(d, "case_" + cid)                  # one directory per case: files of different cases never mix
            os.mkdir(cd)
            os.mkdir(os.path.join(cd, "dir_c08"))
            open(os.path.join(cd, "unreadable_c08"), "w").close()
            os.chmod(os.path.join(cd, "unreadable_c08"), 0)
            for name, data in c["files"].items():
                with open(os.path.join(cd, name), "wb") as f:
                    f.write(data)
            cs = case_script(c, cid, timeout)
            script += cs[:1] + [f"cwd {hx(cd)}"] + cs[1:]
        env = dict(os.environ, ASAN_OPTIONS=ASAN_ENV, UBSAN_OPTIONS=UBSAN_ENV)
        try:
            r = subprocess.run([str(exe)], input=("\n".join(script) + "\n").encode(), capture_output=True, cwd=d, env=env,
                               timeout=sum(wall_limit(c_.get("timeout") or timeout) + 30 for _, c_ in batch) + 120)
            out = r.stdout.decode("latin-1")
        except subprocess.TimeoutExpired as e:
            out = (e.stdout or b"").decode("latin-1")
        return parse_results(out)
    finally:
        if not keep:
            subprocess.run(["chmod", "-R", "u+rwx", d], capture_output=True)
            shutil.rmtree(d, ignore_errors=True)


def run_cases_iter(exe, cases, timeout, workers=None, batch=6):
    """yields (index, record) as the batches finish (in submission order), so that analysis and hang confirmations overlap with the run"""
    items = list(enumerate(cases))
    batches = [[(str(i), c) for i, c in items[k:k + batch]] for k in range(0, len(items), batch)]
    with concurrent.futures.ThreadPoolExecutor(max_workers=workers or max(2, vlib.NCPU)) as ex:
        futs = [ex.submit(run_batch, exe, b_, timeout) for b_ in batches]
        for b_, f in zip(batches, futs):
            res = f.result()
            for cid, _ in b_:
                yield int(cid), res.get(cid)


def run_cases(exe, cases, timeout, workers=None, batch=6):
    out = dict(run_cases_iter(exe, cases, timeout, workers, batch))
    return [out.get(i) for i in range(len(cases))]


def run_one(exe, c, timeout):
    return run_batch(exe, [("0", c)], timeout).get("0")


# ------------------------------------------------------------------------------------------------ analysis

RESOURCE = re.compile(r"allocation-size-too-big|out-of-memory|out of memory|failed to allocate|hard rss limit|requested allocation size|"
                      r"calloc-overflow|exceeds maximum supported size|<memory cannot be printed>|AddressSanitizer: stack-overflow.*\n.*\n.*malloc", re.I)
FRAME = re.compile(r"#\d+ 0x[0-9a-f]+ in (.+?) (/\S+?):(\d+)")


def site_of_report(err):
    """(kind, function) of a sanitizer report: the first frame inside the repository"""
    kind = "crash"
    m = re.search(r"ERROR: AddressSanitizer: ([\w-]+)", err)
    if m:
        kind = "asan-" + m.group(1)
    m2 = re.search(r"(\S+?):(\d+):\d+: runtime error: ([^\n]*)", err)
    if m2 and not m:
        msg = re.sub(r"0x[0-9a-f]+|-?\d[\d.e+-]*", "N", m2.group(3))
        kind = "ubsan-" + re.sub(r"[^A-Za-z]+", "-", msg)[:50].strip("-")
    fn = None
    fr = [re.sub(r"\(.*", "", fm.group(1)) for fm in FRAME.finditer(err) if "/src/" in fm.group(2) and "harness" not in fm.group(2)]
    fr = [re.sub(r"<.*", "", f).replace("Phreeqc::", "").replace(" ", "") for f in fr]
    if fr:
        fn = fr[0] + ("<" + fr[1] if len(fr) > 1 and fr[1] != fr[0] else "")
    if fn is None and m2:
        fn = os.path.basename(m2.group(1)) + ":" + m2.group(2)
    return kind, fn or "unknown-site"


def resolve_throw(exe, spec):
    """`type,addr,addr…` recorded at __cxa_throw → (type, first repository function)"""
    parts = spec.split(",")
    ty = parts[0]
    try:
        ty = subprocess.run(["c++filt", "-t", ty], capture_output=True, text=True).stdout.strip() or ty
    except OSError:
        pass
    addrs = parts[1:]
    fn = "unknown-site"
    if addrs:
        try:
            r = subprocess.run(["addr2line", "-f", "-C", "-e", str(exe)] + addrs, capture_output=True, text=True, timeout=1800)
            lines = r.stdout.splitlines()
            for i in range(0, len(lines) - 1, 2):
                f, loc = lines[i], lines[i + 1]
                if f.startswith("__cxa_throw") or f.startswith("std::") or f.startswith("__") or f == "??" or "ph_fuzz" in loc or f.startswith("operator new"):
                    continue
                fn = re.sub(r"\(.*", "", f)
                break
        except (OSError, subprocess.TimeoutExpired):
            pass
    return ty, fn


def _to_model(h):
    """message bytes → hex of a valid UTF-8 string for the Lean driver (it works on `List Char`): byte b ↦ code point b (latin-1).
    A bijection that commutes with concatenation and keeps '\n', so line splitting is unaffected."""
    return h if h == "-" else unhx(h).decode("latin-1").encode("utf-8").hex()


def _from_model(h):
    return h if h == "-" else unhx(h).decode("utf-8").encode("latin-1").hex()


def model_strings(ctx, groups):
    """groups: list of (errStrOn, [event word lists]) → list of dict(errstr, errlines, warnstr, warnlines, errcount) from `pmodel route`"""
    if not groups:
        return []
    lines = []
    for on, evs in groups:
        lines += [f"cfg err {int(on)} 0"] + [" ".join(e[:-2] + [_to_model(e[-2])]) for e in evs] + ["end"]
    out = None
    for attempt in (1, 2, 3):                       # no wall-clock verdicts: a slow or momentarily missing model binary is retried, then "not judged"
        try:
            out = ctx.pmodel("route", "\n".join(lines) + "\n", timeout=3600)
            break
        except (subprocess.TimeoutExpired, RuntimeError, OSError):
            time.sleep(2 * attempt)
    if out is None:
        return None
    res, cur = [], {}
    for ln in out:
        p = ln.split(" ")
        if p[1] in ("errstr", "warnstr"):
            cur[p[1]] = _from_model(p[2])
        elif p[1] in ("errlines", "warnlines"):
            n = int(p[2])
            cur[p[1]] = [_from_model(x) for x in p[3:3 + n]]
        elif p[1] == "errcount":
            cur["errcount"] = int(p[2])
        elif p[1] == "bad":
            cur["bad"] = int(p[2])
            res.append(cur)
            cur = {}
    return res


def parse_case(rec):
    """split the child's lines into fields"""
    P = dict(L0=None, pre=[], ops={}, RL=None, RLB=None, probe=None, done=False, X=[])
    P["del"] = None
    cur = None
    for ln in rec["lines"]:
        w = ln.split(" ")
        if w[0] == "L0":
            P["L0"] = (int(w[1]), w[2])
        elif w[0] == "PRE":
            P["pre"].append((int(w[2]), w[3]))
        elif w[0] == "OP":
            cur = dict(kind=w[2], events=[], opr=None, views={})
            P["ops"][int(w[1])] = cur
        elif w[0] == "EV" and cur is not None:
            cur["events"].append(w)
        elif w[0] == "OPR" and cur is not None:
            cur["opr"] = dict(x.split("=", 1) for x in w[2:])
        elif w[0] == "V" and cur is not None:
            cur["views"][w[2]] = w[3:]
        elif w[0] == "ACC" and cur is not None:
            cur["acc"] = w[2:]
        elif w[0] == "ISTK" and cur is not None:
            cur["istk"] = int(w[2])
            cur["dbloaded"] = w[3] == "1"
        elif w[0] == "RL":
            P["RL"] = (int(w[1]), w[2], w[3] if len(w) > 3 else "-", int(w[4]) if len(w) > 4 else 0)
        elif w[0] == "RLB":
            P["RLB"] = (int(w[1]), w[2])
        elif w[0] == "PROBE":
            P["probe"] = w[1:]
        elif w[0] == "X":
            P["X"].append(" ".join(w[1:]))
        elif w[0] == "DEL":
            P["del"] = w[1]
        elif w[0] == "DONE":
            P["done"] = True
    return P


def lines_of(bts):
    if not bts:
        return []
    parts = bts.split(b"\n")
    if parts[-1] == b"":
        parts.pop()
    return parts


LOAD_REFRESHES = [True]      # Gen.ErrAcct.loadRefreshesLines of the current source (set by run/replay from the translator)


def analyse(ctx, exe, c, rec):
    """→ dict(status=judged|notjudged:<why>, issues=[(cls, key, text)], stats)   cls in a b c d model"""
    if rec is None or rec["end"] is None:
        return dict(status="notjudged:harness-no-result", issues=[], info={})
    P = parse_case(rec)
    end = rec["end"]
    info = dict(ops=len(c["ops"]), nerr=0, nwarn=0, ret=[], stop=0, compared=0, reload_compared=0)
    issues = []
    if P["L0"] is None or P["L0"][0] != 0 or P["L0"][1] != "-":
        if end["status"] == "walltimeout":
            return dict(status="notjudged:wall-clock-guard", issues=[], info=info)
        if P["L0"] is None and end["status"] != "timeout":
            issues.append(("a", "base-load-died", "the process died while loading the unmodified base database: " + end["stderr"][:300]))
            return dict(status="judged", issues=issues, info=info)
        # loading the unmodified shipped base database on a new instance is itself a valid call: it must return, and return 0
        if P["L0"] is None:
            issues.append(("hang", "hang:base-database-load", f"LoadDatabase of the unmodified base database {c['db']} on a new instance did not return within the time limit"))
        else:
            issues.append(("a", "base-database-load-failed", f"LoadDatabase of the unmodified base database {c['db']} on a new instance returned {P['L0'][0]} / exception {P['L0'][1]}"))
        return dict(status="judged", issues=issues, info=info)
    if any(r != 0 or e != "-" for r, e in P["pre"]) or len(P["pre"]) < len(c["pre"]):
        return dict(status="notjudged:history-call-failed", issues=[], info=info)
    # ---- process-level outcome
    died = not P["done"]
    phase = None
    if died:
        last = max(P["ops"]) if P["ops"] else -1
        if last < 0 or P["ops"][last]["opr"] is None:
            phase = "op%d(%s)" % (max(last, 0), c["ops"][max(last, 0)][0])
        elif P["ops"][last].get("acc") == ["begin"]:
            phase = "op%d(GetComponentCount after %s)" % (last, c["ops"][last][0])
        elif P["RL"] is None:
            phase = "reload"
        elif P["del"] == "begin":
            phase = "destruction of the instances"
        elif P["RLB"] is None:
            phase = "op-load-on-new-instance"            # the comparison instance died loading the reload database: nothing to do with the history
        else:
            phase = "probe"
        err = end["stderr"]
        info["phase"] = phase
        if end["status"] == "walltimeout":
            return dict(status="notjudged:wall-clock-guard", issues=[], info=info)                   # machine too busy or child blocked: never a verdict
        if end["status"] == "timeout" or (end["status"] == "signal" and end["code"] in (9, 24)):     # CPU budget used up (killed by the harness / SIGXCPU)
            info["samples"] = err[err.find("#SAMPLE"):] if "#SAMPLE" in err else ""
            return dict(status="notjudged:timeout", issues=[], info=info)
        # precondition of C08: no failed call since the last successful load — a death inside a call that follows a failed call is not judged
        done_ops = [k for k in sorted(P["ops"]) if P["ops"][k]["opr"] is not None]
        failed_before = [k for k in done_ops if int(P["ops"][k]["opr"]["ret"]) != 0 or P["ops"][k]["opr"]["exc"] != "-"]
        if phase.startswith("op") and failed_before and last > failed_before[0] and not (P["ops"][last].get("acc") == ["begin"] and last == failed_before[0]):
            kind, fn = site_of_report(err)
            return dict(status="notjudged:died-in-call-after-a-failed-call", issues=[], info=dict(info, site=f"{kind}:{fn}"))
        if RESOURCE.search(err) and not P["X"]:
            return dict(status="notjudged:resource-limit-under-sanitizer", issues=[], info=dict(info, resource=err[:200]))
        if P["X"]:
            _, fn = site_of_report(err)
            issues.append(("a", f"process-exit-attempt:{P['X'][0].split()[0]}:{fn}", f"the library called {P['X'][0]} during {phase}; " + err[:1500]))
        else:
            kind, fn = site_of_report(err)
            if end["status"] == "signal" and kind == "crash":
                kind = "signal-%d" % end["code"]
            cls = "a" if phase.startswith("op") else "d"
            issues.append((cls, f"{kind}:{fn}", f"process died during {phase}: {end['status']} {end['code']}; " + err[:1500]))
    # ---- per judged op
    groups, gmeta = [], []
    failed_seen = False
    for k in sorted(P["ops"]):
        o = P["ops"][k]
        if o["opr"] is None:
            continue
        r = o["opr"]
        ret = int(r["ret"])
        evs = o["events"]
        # the engine's input-stream stack must be empty when an API call has returned (Model/ErrAcct: streams_empty_after_call)
        if o.get("istk", 0) != 0:
            issues.append(("d", "input-stream-stack-not-empty", f"{o['kind']} returned {ret} and left {o['istk']} entries on the engine's input-stream stack "
                                                                 "(pointers to the caller's destroyed stream objects)"))
        if failed_seen:
            info["calls_after_failed_call_not_judged"] = info.get("calls_after_failed_call_not_judged", 0) + 1
            continue
        if ret != 0 or r["exc"] != "-":
            failed_seen = True
        nerr = sum(1 for e in evs if e[1] == "err")
        nwarn = sum(1 for e in evs if e[1] == "warn")
        info["nerr"] += nerr
        info["nwarn"] += nwarn
        info["ret"].append(ret)
        acc = o.get("acc", [])
        if len(acc) > 1 and acc[1] != "exc=-":
            issues.append(("a", "escaping-exception:GetComponentCount", f"GetComponentCount after {o['kind']} let an exception escape: {txt(unhx(acc[1][4:]), 200)}"))
        if r["exc"] != "-":
            ty, fn = resolve_throw(exe, r.get("throw", "?"))
            issues.append(("a", f"escaping-exception:{ty}:{fn}", f"{o['kind']} let an exception escape: {txt(unhx(r['exc']), 200)} (thrown in {fn})"))
            continue
        if int(r["afterstop"]) > 0:
            issues.append(("model", "events-after-stop", f"{o['kind']}: {r['afterstop']} PHRQ_io events were routed after a STOP error event"))
        if int(r["firststop"]) >= 0:
            info["stop"] += 1
        if (ret != 0) != (nerr > 0):
            first = next((txt(unhx(e[4]), 80) for e in evs if e[1] == "err"), "")
            lastw = next((txt(unhx(e[3]), 80) for e in reversed(evs) if e[1] == "warn"), "")
            if ret == 0:
                issues.append(("b", "zero-return-despite-error", f"{o['kind']} returned 0 although {nerr} ERROR events were recorded (first: {first!r})"))
            else:
                issues.append(("b", "nonzero-return-without-error", f"{o['kind']} returned {ret} without any ERROR event (ierr={r['ierr']}, last warning {lastw!r})"))
        if r.get("trunc", "0") == "1":
            info["truncated_event_lists"] = info.get("truncated_event_lists", 0) + 1
            continue                                  # more than 20000 ERROR/WARNING events: the strings are not compared
        # model prediction of the strings
        on = r["erron"] == "1" and r["errstron"] == "1"
        plain = evs
        if o["kind"] in ("loaddb", "loaddbstr"):
            ph0 = [e for e in evs if e[-1] == "0"]
            ph1 = [e for e in evs if e[-1] != "0"]
            n0 = sum(1 for e in evs if e[1] == "err" and e[-1] == "0")
            # Model/ErrAcct.loadCall: errors while reading the database ⇒ no self-test run; otherwise the self-test run's
            # check_database clears the reporters and only its events remain
            sel = ph0 if n0 > 0 else ph1
            groups.append((on, sel))
            gmeta.append((k, o, on, "load-failed" if n0 > 0 else "load-tested", len(ph1) if n0 > 0 else 0))
        else:
            groups.append((on, plain))
            gmeta.append((k, o, on, "run", 0))
    preds = model_strings(ctx, groups)
    if preds is None:
        return dict(status="notjudged:model-evaluation-unavailable", issues=issues, info=info) if issues else \
            dict(status="notjudged:model-evaluation-unavailable", issues=[], info=info)
    for (k, o, on, mode, extra), pv in zip(gmeta, preds):
        if pv.get("bad"):
            raise RuntimeError("pmodel route could not parse event lines")
        if mode == "load-failed" and extra:
            issues.append(("model", "self-test-after-failed-load", f"{o['kind']}: events of a self-test run although reading the database recorded errors"))
        v = o["views"]
        info["compared"] += 1
        errstr, warnstr = v["errstr"][0], v["warnstr"][0]
        if on and errstr != pv["errstr"]:
            real = lines_of(unhx(errstr))
            mine = set(lines_of(b"".join(unhx(e[4]) for e in o["events"] if e[1] == "err")))
            foreign = [ln for ln in real if ln not in mine]
            if foreign:
                issues.append(("c", "error-string-has-foreign-text", f"{o['kind']}: error string holds text no ERROR event of this call produced: {txt(foreign[0], 120)!r}"))
            else:
                issues.append(("model", "error-string-ne-model", f"{o['kind']}: error string differs from the routing model ({len(real)} lines vs {len(pv['errlines'])})"))
        if warnstr != pv["warnstr"]:
            real = lines_of(unhx(warnstr))
            mine = set(lines_of(b"".join(unhx(e[3]) + b"\n" for e in o["events"] if e[1] == "warn")))
            foreign = [ln for ln in real if ln not in mine]
            if foreign:
                issues.append(("c", "warning-string-has-foreign-text", f"{o['kind']}: warning string holds text no WARNING event of this call produced: {txt(foreign[0], 120)!r}"))
            else:
                issues.append(("model", "warning-string-ne-model", f"{o['kind']}: warning string differs from the routing model"))
        # line accessors describe the same call as the strings
        el = v["errlines"][1:]
        wl = v["warnlines"][1:]
        if on and int(v["errlines"][0]) <= 3000 and [unhx(x) for x in el] != lines_of(unhx(errstr)):
            key = "failed-load-stale-lines" if mode == "load-failed" and not LOAD_REFRESHES[0] else "error-lines-ne-string"
            issues.append(("c", key, f"{o['kind']}: GetErrorStringLine* ({len(el)} lines: {[txt(unhx(x), 60) for x in el[:2]]}) do not describe this call's error string "
                                     f"({len(lines_of(unhx(errstr)))} lines: {[txt(x, 60) for x in lines_of(unhx(errstr))[:2]]})"))
        if int(v["warnlines"][0]) <= 3000 and [unhx(x) for x in wl] != lines_of(unhx(warnstr)):
            key = "failed-load-stale-lines" if mode == "load-failed" and not LOAD_REFRESHES[0] else "warning-lines-ne-string"
            issues.append(("c", key, f"{o['kind']}: GetWarningStringLine* ({len(wl)} lines: {[txt(unhx(x), 60) for x in wl[:2]]}) do not describe this call's warning string "
                                     f"({len(lines_of(unhx(warnstr)))} lines)"))
    # ---- reload + probe (C07 oracle)
    if P["RL"] is not None and P["RL"][3] != 0:
        issues.append(("d", "input-stream-stack-not-empty", f"LoadDatabase (reload) left {P['RL'][3]} entries on the engine's input-stream stack"))
    if not died:
        rl, rlb = P["RL"], P["RLB"]
        info["reload_compared"] = int(bool(P["probe"]) and P["probe"][0] in ("same", "diff"))
        if rl[1] != "-":
            issues.append(("d", "reload-exception", "LoadDatabase after the judged call let an exception escape: " + txt(unhx(rl[1]), 200)))
        elif rl[0] != 0 and rlb and rlb[0] == 0:
            issues.append(("d", "reload-fails-after-history", f"LoadDatabase of the base database returned {rl[0]} after the judged call but 0 on a new instance: {txt(unhx(rl[2]), 200)!r}"))
        elif P["probe"] and P["probe"][0] == "diff":
            ch = P["probe"][3] if len(P["probe"]) > 3 else "?"
            a = txt(unhx(P["probe"][4]), 4000) if len(P["probe"]) > 4 else ""
            b_ = txt(unhx(P["probe"][5]), 4000) if len(P["probe"]) > 5 else ""
            k = next((i for i, (x, y) in enumerate(zip(a, b_)) if x != y), min(len(a), len(b_)))
            issues.append(("d", "probe-differs-after-reload:" + ch, f"after the reload the probe run differs from a new instance in channel {ch} ({' '.join(P['probe'][1:3])}): "
                                                                      f"{a[max(0, k - 60):k + 60]!r} vs {b_[max(0, k - 60):k + 60]!r}"))
    return dict(status="judged", issues=issues, info=info)


# ------------------------------------------------------------------------------------------------ shrinking

def shrink_case(ctx, exe, c, key, timeout):
    """delta-debug the judged input (lines, then tokens of the remaining lines) while the same issue key is reported"""
    if len(c["ops"]) != 1:
        return c
    kind, payload = c["ops"][0]
    fname = None
    if kind in ("runfile", "loaddb") and payload.decode("latin-1") in c["files"]:
        fname = payload.decode("latin-1")
        text = c["files"][fname]
    elif kind in ("run", "acc", "loaddbstr"):
        text = payload
    else:
        return c
    budget = [120]

    def with_text(t):
        c2 = dict(c, files=dict(c["files"]))
        if fname:
            c2["files"][fname] = t
        else:
            c2["ops"] = [(kind, t)]
        return c2

    def fails_text(t):
        if budget[0] <= 0:
            return False
        budget[0] -= 1
        c2 = with_text(t)
        a = analyse(ctx, exe, c2, run_one(exe, c2, timeout))
        return any(k == key for _, k, _ in a["issues"])

    lines = text.split(b"\n")
    if len(lines) > 1:
        lines = vlib.shrink_list(lines, lambda sub: fails_text(b"\n".join(sub)), max_iter=80)
    # tokens of each remaining line
    for i in range(len(lines)):
        toks = lines[i].split(b" ")
        if len(toks) > 1 and budget[0] > 0:
            toks = vlib.shrink_list(toks, lambda sub: fails_text(b"\n".join(lines[:i] + [b" ".join(sub)] + lines[i + 1:])), max_iter=20)
            lines[i] = b" ".join(toks)
    t = b"\n".join(lines)
    c2 = with_text(t)
    # drop the history call and extra switches when not needed
    if c2["pre"] and budget[0] > 0:
        c3 = dict(c2, pre=[])
        a = analyse(ctx, exe, c3, run_one(exe, c3, timeout))
        if any(k == key for _, k, _ in a["issues"]):
            c2 = c3
    a = analyse(ctx, exe, c2, run_one(exe, c2, timeout))
    return c2 if any(k == key for _, k, _ in a["issues"]) else c


KNOWN_KEYS = {
    # issue key produced by analyse → key in known_findings.txt
    "asan-SEGV:PBasic::factor<PBasic::upexpr": "basic-peek-poke",
    "asan-SEGV:PBasic::cmdpoke<PBasic::exec": "basic-peek-poke",
}


EXTREME_UB = re.compile(r"^ubsan-(signed-integer-overflow|negation-of|.*outside-the-range-of-representable-values|.*is-outside-the-range)")
NUM_TOKEN = re.compile(rb"(?<![A-Za-z_])[-+]?(?:\d+\.?\d*|\.\d+)(?:[eE][-+]?\d+)?|(?i:\bnan\b|\binf(?:inity)?\b)")


def _extreme_in(t):
    for m in NUM_TOKEN.finditer(t):
        try:
            v = float(m.group(0))
        except ValueError:
            continue
        if v != v or abs(v) >= 1e6:
            return True
    return False


def has_extreme_number(c):
    """a numeric token with |n| >= 1e6, or a non-finite one, in the judged input (signature of finding ubsan-extreme-integer-input)"""
    for _, p in c["ops"]:
        t = p if isinstance(p, bytes) else p.encode()
        name = t.decode("latin-1")
        if name in c["files"]:
            t = c["files"][name]
        if _extreme_in(t):
            return True
    return any(_extreme_in(t) for t in c["files"].values())        # include files, written input/database files


def finding_key(key, c):
    if EXTREME_UB.match(key) and has_extreme_number(c):
        # pure integer-arithmetic UB (signed overflow, negation of INT_MIN, out-of-range float→int conversion) driven by an extreme number in the input
        return "ubsan-extreme-integer-input"
    if key in KNOWN_KEYS:
        text = b" ".join(p for _, p in c["ops"]).lower()
        if b"peek" in text or b"poke" in text:
            return KNOWN_KEYS[key]
    k = re.sub(r"[^A-Za-z0-9_.:$~-]+", "-", key).strip("-")
    return k[:90]


NEW_KEY_CAP = 10


def report(ctx, exe, c, issue, timeout, seen, shrink=True, withheld=None):
    cls, key, text = issue
    fk = finding_key(key, c)
    if fk in seen:
        seen[fk] += 1
        return
    seen[fk] = 1
    known = (ctx.prop, fk) in ctx.known
    if not known and withheld is not None and len(ctx.violations) >= NEW_KEY_CAP:
        withheld[fk] = dict(cls=cls, text=text[:600], case=case_to_json(c))           # never silent: counted and printed at the end
        return
    small = c
    if shrink and not known and not key.startswith(("hang:", "base-")):       # nothing to shrink: the judged input is not the cause / each try costs a timeout
        try:
            small = shrink_case(ctx, exe, c, key, timeout)
            a = analyse(ctx, exe, small, run_one(exe, small, timeout))
            text = next((t for _, k, t in a["issues"] if k == key), text)
        except Exception as e:                                   # shrinking is best effort
            ctx.log("shrink failed:", str(e)[:200])
    names = {"a": "(a) crash / undefined behaviour / process exit / escaping exception", "b": "(b) return value does not match the recorded ERROR events",
             "c": "(c) error or warning text that does not describe this call", "d": "(d) state poisoned after the reload",
             "model": "correspondence with Model/ErrAcct broken", "hang": "the call does not return"}
    ctx.finding(fk, f"{names[cls]}: {text}", dict(case=case_to_json(small), issue_key=key, cls=cls, family=c["family"], tag=c["tag"]))


# ------------------------------------------------------------------------------------------------ hangs

def constant_rate_signature(c):
    """RATES program whose SAVE expression does not involve TIME, used by a KINETICS block (known finding hang-kinetics-constant-rate)"""
    for _, p in c["ops"]:
        t = p if isinstance(p, bytes) else p.encode()
        if t.decode("latin-1") in c["files"]:
            t = c["files"][t.decode("latin-1")]
        up = t.upper()
        if b"RATES" in up and b"KINETICS" in up and b"SAVE" in up:
            saves = re.findall(rb"SAVE[^\n]*", up)
            if saves and not any(b"TIME" in x for x in saves) and not re.search(rb"=[^\n]*TIME", up):
                return True
    return False


def sample_sites(exe, text):
    """innermost engine functions of the stack samples the harness took before killing a timed-out child"""
    sites = []
    for blk in text.split("#SAMPLE")[1:]:
        addrs = re.findall(r"\[(0x[0-9a-f]+)\]", blk)
        if not addrs:
            continue
        try:
            r = subprocess.run(["addr2line", "-f", "-C", "-e", str(exe)] + addrs[:40], capture_output=True, text=True, timeout=1800)
        except (OSError, subprocess.TimeoutExpired):
            continue
        L = r.stdout.splitlines()
        fn = None
        for i in range(0, len(L) - 1, 2):
            f, loc = L[i], L[i + 1]
            if "/src/" in loc and "ph_fuzz" not in loc:
                fn = re.sub(r"\(.*", "", f).replace("Phreeqc::", "")
                break
            if fn is None and ("Phreeqc::" in f or "PBasic::" in f or "IPhreeqc::" in f or "cxx" in f or "CParser" in f or "PHRQ_io" in f):
                fn = re.sub(r"\(.*", "", f).replace("Phreeqc::", "")
                break
        sites.append(fn or "?")
    return sites


BIG_NUMBER = re.compile(rb"(?<![A-Za-z_.])\d{4,}|[eE][+]?\d{1,3}\b")


def small_input(c):
    """no count/size the input could legitimately ask a long computation for: total text < 4 kB and no number >= 1000 or with an exponent"""
    tot = 0
    for k_, p_ in c["ops"]:
        t = p_ if isinstance(p_, bytes) else p_.encode()
        if k_ in ("runfile", "loaddb") and t.decode("latin-1") not in c["files"]:
            return False                              # e.g. a device file is an endless input, not a hang
        t = c["files"].get(t.decode("latin-1"), t)
        tot += len(t)
        if BIG_NUMBER.search(t):
            return False
    for t in c["files"].values():
        tot += len(t)
        if BIG_NUMBER.search(t):
            return False
    return tot < 4096 and not any(k in ("loaddb", "loaddbstr") for k, _ in c["ops"])


def sample_events(text):
    """event counters printed with the stack samples: [at half of the CPU budget, at the end, 0.4 s later]"""
    return [int(x) for x in re.findall(r"#SAMPLE ev=(\d+)", text)]


def confirm_hang(plain, c):
    """re-run the case alone on the plain build with a budget of HANG_CPU seconds of the child's *own CPU time* (load-independent).
    → (hang: bool, sites, why). A hang needs: the whole CPU budget burnt, and no PHRQ_io event routed during its second half (no progress)."""
    c2 = dict(c, timeout=HANG_CPU)
    rec = run_one(plain, c2, HANG_CPU)
    if rec is None or rec["end"] is None:
        return False, [], "no result"
    end = rec["end"]
    if end["status"] != "timeout":
        return False, [], "returned or guard: " + end["status"]
    err = end["stderr"]
    part = err[err.find("#SAMPLE"):] if "#SAMPLE" in err else ""
    evs = sample_events(part)
    sites = sample_sites(plain, part)
    if len(evs) < 2 or evs[0] != evs[-1]:
        return False, sites, f"progress during the second half of the budget (events {evs})"
    return True, sites, f"{end.get('cpu', 0):.0f} s of CPU consumed alone on the plain build, no PHRQ_io event during the last {HANG_CPU // 2} s of it (event counter {evs})"


def could_be_judged_a_hang(c):
    if c["family"] == "corpus" or constant_rate_signature(c):
        return True
    text = b" ".join((p_ if isinstance(p_, bytes) else p_.encode()) for _, p_ in c["ops"]).upper() + b" ".join(c["files"].values()).upper()
    stepping = any(k in text for k in (b"TRANSPORT", b"ADVECTION", b"KINETICS", b"INVERSE", b"-STEPS", b"FOR ", b"WHILE", b"GOTO", b"GOSUB"))
    return small_input(c) and not stepping


def judge_timeout(ctx, plain, c, timeout, info=None):
    """the sanitizer run used up its CPU budget. That alone is never a verdict: the case is re-run alone on the plain build with HANG_CPU seconds
    of CPU (`confirm_hang`). Reported are (1) the listed constant-rate KINETICS signature, (2) corpus cases, (3) small inputs (no large number,
    < 4 kB, no time stepping / BASIC loop) whose stack samples (half budget / end) sit in the same engine function: keyed `hang:<function>`"""
    hang, sites, why = confirm_hang(plain, c)
    if not hang:
        if info is not None:
            info["timeout_not_a_hang"] = why
        return None
    if constant_rate_signature(c):
        return ("hang", "hang-kinetics-constant-rate", "the call does not return: " + why + " (RATES program whose SAVE does not depend on TIME)")
    text = b" ".join((p_ if isinstance(p_, bytes) else p_.encode()) for _, p_ in c["ops"]).upper() + b" ".join(c["files"].values()).upper()
    stepping = any(k in text for k in (b"TRANSPORT", b"ADVECTION", b"KINETICS", b"INVERSE", b"-STEPS", b"FOR ", b"WHILE", b"GOTO", b"GOSUB"))
    if c["family"] == "corpus":
        return ("hang", "hang:corpus:" + c["tag"], f"corpus case {c['tag']} does not return: " + why + f"; sampled in {sites[:3]}")
    if small_input(c) and not stepping and len(sites) >= 2 and sites[0] == sites[-1] and sites[0] != "?":
        return ("hang", "hang:" + sites[0], "the call does not return: " + why + f"; all stack samples are inside {sites[0]} (input < 4 kB, no number >= 1000, "
                                             "no time stepping or BASIC loop)")
    if info is not None:
        info["unexplained_timeout_sites"] = sites
    return None


def confirm_base_load_hang(plain, c):
    hang, sites, why = confirm_hang(plain, dict(c, ops=[], pre=[], probe=None))
    return hang, why


# ------------------------------------------------------------------------------------------------ entry points

def build(ctx):
    ctx.build_lib()
    ctx.build_lib("asan", cxxflags=ASAN_FLAGS)
    exe = ctx.build_harness("ph_fuzz", variant="asan", extra=ASAN_FLAGS.split() + ["-no-pie", "-ldl"])
    plain = ctx.build_harness("ph_fuzz", extra=["-no-pie", "-ldl"])
    return exe, plain


def run(ctx):
    tr = gen_erracct.generate(ctx)
    LOAD_REFRESHES[0] = bool(tr["refresh"])
    ctx.cov["translator"] = dict(shape_facts=len(tr["facts"]), shape_facts_false=[n for n, v in tr["facts"] if not v], load_refreshes_lines=tr["refresh"],
                                 input_error_increment_sites=len(tr["sites"]), unpaired_sites=sum(1 for s_ in tr["sites"] if not s_["paired"]),
                                 unpaired_outside_reading_phase=[f"{s_['file']}:{s_['line']} {s_['func']}" for s_ in tr["sites"] if not s_["paired"] and not s_["reading"]])
    ok = ctx.prove(["PhreeqcVerif.Properties.C08"])
    exe, plain = build(ctx)
    timeout = ctx.n(20, 30)
    n = ctx.n(360, 10000)
    if not ok:
        n = max(n, 3000)
    QUICK[0] = ctx.tier != "thorough"
    seeds = F.seeds()
    cases = corpus_cases() + [gen_case(ctx.rng, seeds) for _ in range(n)]
    ctx.log(f"{len(cases)} cases ({len(seeds)} seed inputs), ASan+UBSan harness {exe.name}")
    fam, status, cls_count, seen, withheld = {}, {}, {}, {}, {}
    evals = nontrivial = 0
    stats = dict(error_events=0, warning_events=0, calls_with_stop=0, nonzero_returns=0, zero_returns=0, timeouts_rerun_on_plain_build=0, timeouts_confirmed_on_plain_build=0,
                 calls_compared_with_model=0, reload_probes_compared_with_new_instance=0)
    after_failed = {}
    mut_kinds, hang_sites, hist_stats = {}, {}, dict(histories=0, calls={}, reload_db={}, reload_no_END=0, reload_as_string=0)
    chunk = 960
    pending, base_hang = [], [None]
    sw_stats = {}
    confirm_pool = concurrent.futures.ThreadPoolExecutor(max_workers=4)
    for base in range(0, len(cases), chunk):
        part = cases[base:base + chunk]
        for idx_, rec in run_cases_iter(exe, part, timeout):
            c = part[idx_]
            a = analyse(ctx, exe, c, rec)
            evals += 1
            fam.setdefault(c["family"], {}).setdefault(a["status"].split(":")[0], 0)
            fam[c["family"]][a["status"].split(":")[0]] += 1
            status[a["status"]] = status.get(a["status"], 0) + 1
            if c["family"] == "mutate":
                for k in c["tag"].split(":", 1)[-1].split("+"):
                    mut_kinds[k.split("/")[0]] = mut_kinds.get(k.split("/")[0], 0) + 1
            inf = a["info"]
            sw_stats[c.get("switches", "fixed")] = sw_stats.get(c.get("switches", "fixed"), 0) + 1
            if c.get("history"):
                h = c["history"]
                hist_stats["histories"] += 1
                hist_stats["calls"][h["calls"]] = hist_stats["calls"].get(h["calls"], 0) + 1
                hist_stats["reload_db"][h["reload"]] = hist_stats["reload_db"].get(h["reload"], 0) + 1
                hist_stats["reload_no_END"] += int(not h["reload_has_end"])
                hist_stats["reload_as_string"] += int(h["as_string"])
            if a["status"].startswith("notjudged:died-in-call-after"):
                after_failed[inf.get("site", "?")] = after_failed.get(inf.get("site", "?"), 0) + 1
            if a["status"] == "judged":
                stats["error_events"] += inf.get("nerr", 0)
                stats["warning_events"] += inf.get("nwarn", 0)
                stats["calls_with_stop"] += inf.get("stop", 0)
                stats["calls_compared_with_model"] += inf.get("compared", 0)
                stats["reload_probes_compared_with_new_instance"] += inf.get("reload_compared", 0)
                stats["nonzero_returns"] += sum(1 for r in inf.get("ret", []) if r != 0)
                stats["zero_returns"] += sum(1 for r in inf.get("ret", []) if r == 0)
                if inf.get("nerr", 0) or inf.get("nwarn", 0):
                    nontrivial += 1
                if len(ctx.cov["samples"]) < 3 and inf.get("nerr", 0) and c["family"] != "corpus":
                    ctx.sample(dict(family=c["family"], tag=c["tag"][:80], input=txt(c["ops"][0][1], 300), returns=inf["ret"], error_events=inf["nerr"],
                                    warning_events=inf["nwarn"]))
            elif a["status"] == "notjudged:timeout" and not could_be_judged_a_hang(c):
                # large counts / time stepping / loops: a long run is what the input asks for; counted with the sampled engine function
                for st_ in sample_sites(exe, inf.get("samples", ""))[-1:]:
                    hang_sites[st_] = hang_sites.get(st_, 0) + 1
            elif a["status"] == "notjudged:timeout" and (stats["timeouts_rerun_on_plain_build"] < ctx.n(8, 60) or c["family"] == "corpus"):
                stats["timeouts_rerun_on_plain_build"] += 1
                pending.append((c, inf, confirm_pool.submit(judge_timeout, ctx, plain, c, c.get("timeout") or timeout, inf)))
            for iss in a["issues"]:
                if iss[1] == "hang:base-database-load":
                    if base_hang[0] is None:                       # confirmed once per run, alone on the plain build, by CPU time
                        base_hang[0] = confirm_base_load_hang(plain, c)
                    if not base_hang[0][0]:
                        stats["base_load_timeouts_not_confirmed"] = stats.get("base_load_timeouts_not_confirmed", 0) + 1
                        continue
                    iss = (iss[0], iss[1], iss[2] + "; " + base_hang[0][1])
                cls_count[iss[0]] = cls_count.get(iss[0], 0) + 1
                report(ctx, exe, c, iss, timeout, seen, withheld=withheld)
        ctx.log(f"{evals}/{len(cases)} cases, {len(seen)} distinct issue keys, {len(ctx.violations)} violations, {len(withheld)} withheld")
    for c, inf, fut in pending:                                    # hang confirmations (each HANG_CPU seconds of CPU on the plain build) ran alongside
        iss = fut.result()
        if iss:
            stats["timeouts_confirmed_on_plain_build"] += 1
            cls_count[iss[0]] = cls_count.get(iss[0], 0) + 1
            report(ctx, exe, c, iss, timeout, seen, withheld=withheld)
        for st_ in inf.get("unexplained_timeout_sites", []):
            hang_sites[st_] = hang_sites.get(st_, 0) + 1
    confirm_pool.shutdown()
    ctx.log(f"{len(pending)} CPU-budget timeouts re-run alone on the plain build, {stats['timeouts_confirmed_on_plain_build']} confirmed as hangs")
    if withheld:
        print(f"C08: {len(withheld)} further distinct new issue keys withheld after the first {NEW_KEY_CAP} violations (listed in evidence/C08.json): "
              + ", ".join(sorted(withheld)[:12]), flush=True)
    ctx.cov["evaluations"] = evals
    ctx.cov["distinct_nontrivial"] = nontrivial
    ctx.cov["family_outcomes"] = fam
    ctx.cov["mutation_kinds"] = mut_kinds
    ctx.cov["histories"] = hist_stats
    ctx.cov["switch_configurations"] = sw_stats
    ctx.cov["timeouts_not_routed_sampled_sites"] = hang_sites
    ctx.cov["deaths_in_calls_after_a_failed_call_not_judged"] = after_failed
    ctx.cov["outcomes"] = status
    ctx.cov["event_statistics"] = stats
    ctx.cov["issue_classes"] = cls_count
    ctx.cov["issue_keys"] = seen
    ctx.cov["withheld_new_issue_keys"] = {k: dict(cls=v["cls"], text=v["text"], input=v["case"].get("input_text", [""])[0][:600]) for k, v in withheld.items()}
    ctx.cov["vocabulary"] = dict(keywords=len(F.KEYWORDS), readers_with_option_lists=len(F.OPTS), options=len(F.ALL_OPTS), basic_tokens=len(F.BASIC_WORDS),
                                 seeds=len(seeds), excluded_basic_tokens=sorted(F.EXCLUDED_BASIC))
    ctx.cov["rule"] = ("every case = new process (fork) on the ASan+UBSan build: LoadDatabase(base) [+ one successful call with warnings in 25 %] + judged call(s) "
                       "+ GetComponentCount + LoadDatabase(base) + probe run vs a new instance. Families: mutate (shipped examples, gtest inputs, built-in blocks under 1-5 "
                       "token/line/number/byte/structural mutations), grammar (blocks for every keyword with options taken from the reader's own option list: wrong, missing, "
                       "duplicated, prefix, foreign, extreme values), basic (malformed/truncated BASIC in RATES/USER_PUNCH/USER_PRINT/CALCULATE_VALUES/USER_GRAPH), "
                       "entities (unknown names, undefined numbers), extreme (1e308, nan, inf, huge integers, long tokens/lines), bytes (NUL-free arbitrary bytes), "
                       "database (the same on database text via LoadDatabaseString/LoadDatabase), files (missing/directory/odd paths, unwritable output names, "
                       "INCLUDE$). Entry point RunString 70 % / RunFile 15 % / AccumulateLine+RunAccumulated 15 %. non-trivial = judged cases with at least one "
                       "ERROR or WARNING event. Time limits are budgets of the child's own CPU time (20 s quick / 30 s thorough on the sanitizer build), never wall time; a "
                       "hang verdict needs 60 s of CPU burnt alone on the plain build with no PHRQ_io event during the second half, and is given only to the listed "
                       "constant-rate signature, corpus cases, the base database load and small inputs without time stepping; the wall-clock guard (30x budget + 120 s) "
                       "only yields 'not judged'. Not judged: other CPU-budget timeouts (counted with the sampled engine function), allocator "
                       "limits of the sanitizer, cases whose history call failed.")
    ctx.level = "proof"
    ctx.assumptions.append("crash-freedom, absence of undefined behaviour and reload-equivalence of the engine are sanitizer-backed exploration (layer N), not theorems")
    if not ok and not ctx.violations:
        ctx.violation("proof obligation of C08 no longer checks and no failing input was found", {"broken": ctx.proof_broken, "translator": ctx.cov["translator"]},
                      found_input=False)


def replay(ctx, data):
    tr = gen_erracct.generate(ctx)
    LOAD_REFRESHES[0] = bool(tr["refresh"])
    exe, plain = build(ctx)
    if "case" not in data:
        return run(ctx)
    if not ctx.pmodel_path().exists():
        ctx.lake_build(["pmodel"])
    c = case_from_json(data["case"])
    rec = run_one(exe, c, 60)
    a = analyse(ctx, exe, c, rec)
    if a["status"] == "notjudged:timeout":
        iss = judge_timeout(ctx, plain, c, c.get("timeout") or 30, a["info"])
        if iss:
            a["issues"].append(iss)
    print("replay:", a["status"], [(cl, k, t[:300]) for cl, k, t in a["issues"]])
    if rec and rec["end"]:
        print("process:", rec["end"]["status"], rec["end"]["code"])
        print(rec["end"]["stderr"][:3000])
    seen = {}
    for iss in a["issues"]:
        report(ctx, exe, c, iss, 60, seen, shrink=False)


MANIFEST = dict(
    technique="Lean 4 state machine of one API call's error accounting over the PHRQ_io event stream (theorems for all programs of engine steps, all "
              "histories), tied to the source by a translator (code-shape facts + every input_error++ site, decide over the generated table) and by "
              "trace correspondence; sanitizer-backed fuzzing of the real library in forked children (layer N) for crash-freedom and the reload",
    text="Theorems (Properties/C08.lean over Model/ErrAcct.lean, all programs = any number of simulations of arbitrary reading steps + tidy_model gate + running "
         "steps, all wrapper states and switch settings): retval_nonzero_iff_error, load_retval_nonzero_iff_error, retval_nonzero_of_error_any_steps (+ witness "
         "bump_without_gate_breaks_converse), errors_this_call_only, run_strings_independent_of_history, load_errors_this_call_only, load_lines_this_call_only "
         "(current source: load_db refreshes the lines) / load_lines_this_call_only_partial + witness failed_load_keeps_stale_lines (source without that call), "
         "stop_unwinds_to_api, steps_after_stop_have_no_effect, run_stop_is_last, load_result_independent_of_wrapper, failed_then_load_fresh, "
         "failed_then_load_then_calls_eq_fresh. Obligations over Gen/ErrAcct.lean (regenerated every run): shape_facts_hold (24 facts about get_input_errors, the "
         "three error_msg layers, read_input's reset, tidy_model's gate, Run*/LoadDatabase order, check_database, update_errors, UnLoadDatabase), "
         "bumps_paired_or_reading (533 input_error++ sites: next to an error_msg, or in a reading-phase function, or reviewed). Correspondence per fuzz case: "
         "recorded ERROR/WARNING events -> pmodel route (errStrChunks/warnStrChunks/errCount/splitLines) vs GetErrorString/GetWarningString/line accessors, "
         "return value vs ERROR events, events after a STOP event, phase rule of LoadDatabase. Exploration (layer N, not proof): forked children on an "
         "ASan+UBSan build, exit/_exit/abort interposed, exceptions caught at the API boundary with the throw site recorded, GetComponentCount after every "
         "call, reload + probe vs a new instance.",
    note="Trusted: gen_erracct.py (regex on comment-stripped function bodies; fails closed to `false`), harness/ph_fuzz.cpp (own PHRQ_io subclass, fork/pipe protocol, "
         "interposed exit functions, __cxa_throw hook), pmodel route (Driver/Route.lean) as evaluator of the Route functions, the comparison in props/c08.py; byte "
         "strings cross to the Lean driver through a latin-1 bijection. Partial: crash-freedom, no-UB, no-exit, no-escaping-exception and the engine half of the "
         "reload are sanitizer-backed exploration, not theorems; the typing of the running phase (no bare input_error++) rests on the site table plus one reviewed "
         "exception (print_mix); time limits are CPU-time budgets of the child (load-independent), hang verdicts need 60 CPU-s without progress alone on the plain "
         "build and are restricted to the listed constant-rate KINETICS signature, corpus cases, the base load and small inputs without time stepping; "
         "allocation limits of the sanitizer allocator are not judged; leaks are not judged (not in the statement). BASIC tokens PEEK/POKE are excluded from "
         "generated programs (known finding basic-peek-poke, reproduced from the corpus on every run).",
)
