import PhreeqcVerif.Model.BasicEval
/-! Statement execution of the BASIC model (C17): `PBasic::exec` and every `cmd*` function, token driven exactly as
the C code walks `stmtline` / `LINK->t`; `basic_compile` (line store, direct-mode execution of unnumbered lines)
and `basic_run` (`run`: clear variables, loops, data pointer; execute from the first line).

One *step* is one pass through the body of `exec`'s inner `do … while (V.t != NULL)` loop (one statement) plus,
when the line is exhausted, the move to the next line. `runLoop` iterates steps under a fuel bound. -/
namespace PhreeqcVerif.Basic

section Exec
variable {α : Type} [BNum α]

/-- `stmtline`, `stmttok` and the interpreter state -/
structure Cfg (α : Type) where
  st : St α
  line : Option Nat
  tok : List (Tok α)

/-- what a `cmd*` function leaves behind: state, `stmtline`, `LINK->t`, `gotoflag`, `elseflag` -/
structure Out (α : Type) where
  st : St α
  line : Option Nat
  t : List (Tok α)
  goto : Bool := false
  els : Bool := false

inductive StepRes (α : Type) where
  | cont (c : Cfg α)
  | done (s : St α)
  | err (e : Err) (s : St α)

def isEos (t : List (Tok α)) : Bool := match t with
  | [] => true
  | tk :: _ => tk.isK .else_ || tk.isK .colon

def skipToEos : List (Tok α) → List (Tok α)
  | [] => []
  | tk :: r => if tk.isK .else_ || tk.isK .colon then tk :: r else skipToEos r

abbrev Hook (α : Type) := String → M α (Val α)

/-- `expr(LINK)` at a token position -/
def exprAt (hook : Hook α) (t : List (Tok α)) (s : St α) : Except Err (Val α × List (Tok α) × St α) :=
  match parseExpr t with
  | .error e => .error e
  | .ok (e, r) =>
    match eval hook e s with
    | .error e => .error e
    | .ok (v, s1) => .ok (v, r, s1)

def realExprAt (hook : Hook α) (t : List (Tok α)) (s : St α) : Except Err (α × List (Tok α) × St α) :=
  match exprAt hook t s with
  | .error e => .error e
  | .ok (v, r, s1) => match needNum v with
    | .error e => .error e
    | .ok x => .ok (x, r, s1)

def strExprAt (hook : Hook α) (t : List (Tok α)) (s : St α) : Except Err (String × List (Tok α) × St α) :=
  match exprAt hook t s with
  | .error e => .error e
  | .ok (v, r, s1) => match needStr v with
    | .error e => .error e
    | .ok x => .ok (x, r, s1)

def intExprAt (hook : Hook α) (t : List (Tok α)) (s : St α) : Except Err (Int × List (Tok α) × St α) :=
  match realExprAt hook t s with
  | .error e => .error e
  | .ok (x, r, s1) => match roundM x s1 with
    | .error e => .error e
    | .ok (i, s2) => .ok (i, r, s2)

/-- `findvar(LINK)` at a token position: name, remaining tokens, state with `ptr` on the designated cell -/
def varRefAt (hook : Hook α) (t : List (Tok α)) (s : St α) : Except Err (String × List (Tok α) × St α) :=
  match parseVarRef t with
  | .error e => .error e
  | .ok ((name, subs), r) =>
    match findVar hook name subs s with
    | .error e => .error e
    | .ok (_, s1) => .ok (name, r, s1)

def findLine (s : St α) (n : Int) : Option Nat :=
  if n < 0 then none else s.lines.findIdx? (fun l => l.num == n.toNat)

def lineToks (s : St α) (i : Nat) : List (Tok α) := match s.lines[i]? with
  | some l => l.toks
  | none => []

/-- the token stream a forward scan walks: rest of the current line, then every later line -/
def streamFrom (s : St α) (line : Option Nat) (t : List (Tok α)) : List (Option Nat × List (Tok α)) :=
  (line, t) :: (match line with
    | none => []
    | some i => (List.range (s.lines.length - (i + 1))).map fun k => (some (i + 1 + k), lineToks s (i + 1 + k)))

section Scan
variable {σ : Type}
/-- walk tokens with a state; `f` sees the token and the tokens after it and says whether to stop *after* it -/
def scanToks (f : σ → Tok α → List (Tok α) → σ × Bool) : σ → List (Tok α) → Sum σ (List (Tok α))
  | st, [] => .inl st
  | st, tk :: r => let (st', stop) := f st tk r
                   if stop then .inr r else scanToks f st' r
def scanStream (f : σ → Tok α → List (Tok α) → σ × Bool) :
    σ → List (Option Nat × List (Tok α)) → Option (Option Nat × List (Tok α))
  | _, [] => none
  | st, (ln, ts) :: rest => match scanToks f st ts with
    | .inr r => some (ln, r)
    | .inl st' => scanStream f st' rest
end Scan

def nextIsVar (r : List (Tok α)) (name : String) : Bool := match r with
  | .var n :: _ => n == name
  | _ => false

/-- counters of `cmdfor`'s skip: `i` nests loops over other variables, `j` loops over the same variable -/
def forSkipStep (name : String) (ij : Int × Int) (tk : Tok α) (r : List (Tok α)) : (Int × Int) × Bool :=
  let (i, j) := ij
  let (i, j) := if tk.isK .for_ then (if nextIsVar r name then (i, j + 1) else (i + 1, j)) else (i, j)
  let (i, j) := if tk.isK .next then (if nextIsVar r name then (i, j - 1) else (i - 1, j)) else (i, j)
  ((i, j), !(i ≥ 0 && j ≥ 0))

/-- `skiploop(tokwhile, tokwend)` -/
def whileSkipStep (i : Int) (tk : Tok α) (_r : List (Tok α)) : Int × Bool :=
  let i := if tk.isK .while_ then i + 1 else i
  let i := if tk.isK .wend then i - 1 else i
  (i, !(i ≥ 0))

/-- `cmdread`'s search: a DATA token followed by something -/
def dataStep (_u : Unit) (tk : Tok α) (r : List (Tok α)) : Unit × Bool :=
  ((), tk.isK .data && !isEos r)

/-- `cmdif`: skip to the ELSE that matches (nested IFs counted), consuming it -/
def skipToElse : Int → List (Tok α) → List (Tok α)
  | _, [] => []
  | i, tk :: r =>
    let i' := if tk.isK .if_ then i + 1 else if tk.isK .else_ then i - 1 else i
    if i' ≥ 0 then skipToElse i' r else r

/-- entry test of FOR: skip the loop body? -/
def forSkips (v mx step : α) : Bool :=
  (BNum.ge step BNum.zero && BNum.gt v mx) || (BNum.le step BNum.zero && BNum.lt v mx)

/-- test of NEXT after the increment: go round again? -/
def nextContinues (v mx step : α) : Bool :=
  (BNum.lt step BNum.zero || BNum.le v mx) && (BNum.gt step BNum.zero || BNum.ge v mx)

def cmdGoto (hook : Hook α) (s : St α) (t : List (Tok α)) : Except Err (Out α) :=
  match intExprAt hook t s with
  | .error e => .error e
  | .ok (n, _, s1) => match findLine s1 n with
    | none => .error .undefLine
    | some i => .ok { st := s1, line := some i, t := [], goto := true }

def popTo (p : Loop α → Bool) (stopAt : Loop α → Bool) : List (Loop α) → Option (Loop α × List (Loop α))
  | [] => none
  | l :: r => if stopAt l then none else if p l then some (l, r) else popTo p stopAt r

def isSep (tk : Tok α) : Bool := tk.isK .semi || tk.isK .comma

/-- `cmdpunch` / `cmdprint` / `cmdsave` item loop; fuel = number of tokens + 1 -/
def cmdPunch (hook : Hook α) : Nat → St α → List (Tok α) → Except Err (St α × List (Tok α))
  | 0, _, _ => .error .fuel
  | fuel + 1, s, t =>
    if isEos t then .ok (s, t) else
    match t with
    | [] => .ok (s, t)
    | tk :: r =>
      if isSep tk then cmdPunch hook fuel s r else
      match exprAt hook t s with
      | .error e => .error e
      | .ok (v, r1, s1) =>
        let s2 := if !s1.skipPunch then { s1 with punch := s1.punch.push v, punchTab := true } else s1
        cmdPunch hook fuel { s2 with skipPunch := false } r1

def cmdPrintLoop (hook : Hook α) : Nat → Bool → St α → List (Tok α) → Except Err (Bool × St α × List (Tok α))
  | 0, _, _, _ => .error .fuel
  | fuel + 1, semi, s, t =>
    if isEos t then .ok (semi, s, t) else
    match t with
    | [] => .ok (semi, s, t)
    | tk :: r =>
      if isSep tk then cmdPrintLoop hook fuel true s r else
      match exprAt hook t s with
      | .error e => .error e
      | .ok (v, r1, s1) =>
        let s2 := match v with
          | .str x => if !s1.skipPunch then { s1 with prints := s1.prints.push (x ++ " ") } else s1
          | .num x => { s1 with prints := s1.prints.push (BNum.fmt s1.hp x ++ " "), ub := s1.ub || BNum.isNaN x }
        cmdPrintLoop hook fuel false s2 r1

def cmdPrint (hook : Hook α) (s : St α) (t : List (Tok α)) : Except Err (St α × List (Tok α)) :=
  match cmdPrintLoop hook (t.length + 1) false s t with
  | .error e => .error e
  | .ok (semi, s1, r) =>
    let s2 := if !semi && s1.outNewline then { s1 with prints := s1.prints.push "\n" } else s1
    .ok ({ s2 with outNewline := true, skipPunch := false }, r)

def cmdSave (hook : Hook α) : Nat → St α → List (Tok α) → Except Err (St α × List (Tok α))
  | 0, _, _ => .error .fuel
  | fuel + 1, s, t =>
    if isEos t then .ok (s, t) else
    match t with
    | [] => .ok (s, t)
    | tk :: r =>
      if isSep tk then cmdSave hook fuel s r else
      match exprAt hook t s with
      | .error e => .error e
      | .ok (.str _, _, _) => .error (.syntax "in SAVE command")
      | .ok (.num x, r1, s1) => cmdSave hook fuel { s1 with save := some x } r1

/-- subscripts of PUT / PUT$: `( , intexpr)* )` — the key text; `int j` wraps to 32 bits -/
def putKeys (hook : Hook α) : Nat → St α → List (Tok α) → String → Except Err (String × St α × List (Tok α))
  | 0, _, _, _ => .error .fuel
  | fuel + 1, s, t, key =>
    if headIs t .comma then
      match intExprAt hook (t.drop 1) s with
      | .error e => .error e
      | .ok (j, r, s1) => putKeys hook fuel s1 r (key ++ toString (wrapInt32 j) ++ ",")
    else match requireK .rp t with
      | .error e => .error e
      | .ok r => .ok (key, s, r)

def cmdPut (hook : Hook α) (isStr : Bool) (s : St α) (t : List (Tok α)) : Except Err (St α × List (Tok α)) :=
  match requireK .lp t with
  | .error e => .error e
  | .ok t1 =>
    if isStr then
      match strExprAt hook t1 s with
      | .error e => .error e
      | .ok (v, t2, s1) => match putKeys hook (t2.length + 1) s1 t2 "" with
        | .error e => .error e
        | .ok (key, s2, r) => .ok ({ s2 with putS := insertKV s2.putS key v }, r)
    else
      match realExprAt hook t1 s with
      | .error e => .error e
      | .ok (v, t2, s1) => match putKeys hook (t2.length + 1) s1 t2 "" with
        | .error e => .error e
        | .ok (key, s2, r) => .ok ({ s2 with putN := insertKV s2.putN key v }, r)

/-- `cmdlet` -/
def cmdLet (hook : Hook α) (s : St α) (t : List (Tok α)) : Except Err (St α × List (Tok α)) :=
  match varRefAt hook t s with
  | .error e => .error e
  | .ok (name, t1, s1) =>
    let target := (s1.getVar name).ptr
    match requireK .eq t1 with
    | .error e => .error e
    | .ok t2 =>
      if isStrName name then
        match strExprAt hook t2 s1 with
        | .error e => .error e
        | .ok (x, r, s2) =>
          let v := s2.getVar name
          .ok (s2.setVar name ({ v with ptr := target }.setStr x), r)
      else
        match realExprAt hook t2 s1 with
        | .error e => .error e
        | .ok (x, r, s2) =>
          let v := s2.getVar name
          .ok (s2.setVar name ({ v with ptr := target }.setNum x), r)

/-- dimension list of DIM: `intexpr (, intexpr)* )`; each bound `k = value + 1 ≥ 1`, at most 4 -/
def dimList (hook : Hook α) : Nat → St α → List (Tok α) → List Nat → Except Err (List Nat × St α × List (Tok α))
  | 0, _, _, _ => .error .fuel
  | fuel + 1, s, t, acc =>
    match intExprAt hook t s with
    | .error e => .error e
    | .ok (k0, r, s1) =>
      let k := k0 + 1
      if k < 1 then .error .badSubscript
      else if acc.length ≥ 4 then .error .badSubscript
      else
        let acc' := acc ++ [k.toNat]
        if headIs r .rp then .ok (acc', s1, r.drop 1)
        else match requireK .comma r with
          | .error e => .error e
          | .ok r' => dimList hook fuel s1 r' acc'

def cmdDim (hook : Hook α) : Nat → St α → List (Tok α) → Except Err (St α × List (Tok α))
  | 0, _, _ => .error .fuel
  | fuel + 1, s, t =>
    match t with
    | .var name :: t1 =>
      let v := s.getVar name
      if !v.dims.isEmpty then .error .arrayAlready else
      (match requireK .lp t1 with
       | .error e => .error e
       | .ok t2 =>
         match dimList hook (t2.length + 1) s t2 [] with
         | .error e => .error e
         | .ok (dims, s1, r) =>
           let cells := dims.foldl (· * ·) 1
           if cells > maxCells then .error .resource else
           let v1 := s1.getVar name
           let v2 : Var α := { v1 with
             dims := dims
             arr := Array.replicate (if isStrName name then 0 else cells) BNum.zero
             sarr := Array.replicate (if isStrName name then cells else 0) "" }
           let s2 := s1.setVar name v2
           if isEos r then .ok (s2, r)
           else match requireK .comma r with
             | .error e => .error e
             | .ok r' => if isEos r' then .ok (s2, r') else cmdDim hook fuel s2 r')
    | _ => .error (.syntax "error in DIM command")

def cmdErase : Nat → St α → List (Tok α) → Except Err (St α × List (Tok α))
  | 0, _, _ => .error .fuel
  | fuel + 1, s, t =>
    match t with
    | .var name :: r =>
      -- `clearvar`; FOR loops running on an element of the released array continue on the scalar cell
      let s0 := s.setVar name ((s.getVar name).clear)
      let s1 := { s0 with loops := s0.loops.map fun l =>
                    if l.kind == .for_ && l.var == name then { l with cell := none } else l }
      if isEos r then .ok (s1, r)
      else (match requireK .comma r with
        | .error e => .error e
        | .ok r' => if isEos r' then .ok (s1, r') else cmdErase fuel s1 r')
    | _ => .error (.syntax "error in DIM command")

/-- where the next READ item is: `cmdread`'s search. After a previous READ the pointer sits behind the expression it
consumed: a comma there means "next item of the same DATA statement"; otherwise (and at the start, from the first
line) the stream is searched forward for the first DATA token that is followed by an item. -/
def dataPos (s : St α) : Except Err (Option Nat × List (Tok α)) :=
  let start : Except Err (Option Nat × List (Tok α)) := match s.dataline with
    | none => if s.lines.isEmpty then .error .outOfData else .ok (some 0, lineToks s 0)
    | some i => .ok (some i, s.datatok)
  match start with
  | .error e => .error e
  | .ok (dl, dt) =>
    if headIs dt .comma then .ok (dl, dt.drop 1)
    else match scanStream dataStep () (streamFrom s dl dt) with
      | none => .error .outOfData
      | some p => .ok p

/-- `cmdread` -/
def cmdRead (hook : Hook α) : Nat → St α → List (Tok α) → Except Err (St α × List (Tok α))
  | 0, _, _ => .error .fuel
  | fuel + 1, s, t =>
    match varRefAt hook t s with
    | .error e => .error e
    | .ok (name, tok, s1) =>
      match dataPos s1 with
      | .error e => .error e
      | .ok (dl, dt) =>
        let pos : Except Err (Option Nat × List (Tok α)) := .ok (dl, dt)
        match pos with
        | .error e => .error e
        | .ok (dl1, dt1) =>
          -- the cell `findvar` designated receives the value (its address is taken before the DATA expression is
          -- evaluated); a string cell is freed first, so the expression already sees it empty
          let target := (s1.getVar name).ptr
          let assigned : Except Err (St α × List (Tok α)) :=
            if isStrName name then
              let s1c := s1.setVar name ((s1.getVar name).setStrAt target "")
              match strExprAt hook dt1 s1c with
              | .error e => .error e
              | .ok (x, r, s2) => .ok (s2.setVar name ((s2.getVar name).setStrAt target x), r)
            else
              match realExprAt hook dt1 s1 with
              | .error e => .error e
              | .ok (x, r, s2) => .ok (s2.setVar name ((s2.getVar name).setNumAt target x), r)
          match assigned with
          | .error e => .error e
          | .ok (s3, dt2) =>
            let s4 := { s3 with dataline := dl1, datatok := dt2 }
            if isEos tok then .ok (s4, tok)
            else match requireK .comma tok with
              | .error e => .error e
              | .ok t' => if isEos t' then .ok (s4, t') else cmdRead hook fuel s4 t'

/-- `cmdon`'s walk over the line-number list -/
def onSkip : Nat → Int → List (Tok α) → Except Err (List (Tok α))
  | 0, _, _ => .error .fuel
  | fuel + 1, i, t =>
    if i > 1 && !isEos t then
      match t with
      | .num _ :: r =>
        if !isEos r then
          match requireK .comma r with
          | .error e => .error e
          | .ok r' => onSkip fuel (i - 1) r'
        else onSkip fuel (i - 1) r
      | _ => .error (.syntax "missing number")
    else .ok t

/-- editor / host commands and statements outside the model -/
def stmtOther (n : String) : Bool :=
  ["tokinput", "tokgotoxy", "tokpoke", "toklist", "tokrun", "toknew", "tokload", "tokmerge", "tokdel", "tokrenum",
   "tokchange_por", "tokchange_surf"].contains n

/-- one statement: the `switch (stmttok->kind)` of `exec` -/
def execStmt (hook : Hook α) (s : St α) (line : Option Nat) (head : Tok α) (t : List (Tok α)) : Except Err (Out α) :=
  let same (r : Except Err (St α × List (Tok α))) : Except Err (Out α) := match r with
    | .error e => .error e
    | .ok (s', t') => .ok { st := s', line := line, t := t' }
  match head with
  | .rem _ => .ok { st := s, line := line, t := t }
  | .var _ => same (cmdLet hook s (head :: t))
  | .num _ | .str _ | .snerr _ => .error .illegal
  | .k k =>
    match k with
    | .let_ => same (cmdLet hook s t)
    | .print => same (cmdPrint hook s t)
    | .punch => same (cmdPunch hook (t.length + 1) s t)
    | .put => same (cmdPut hook false s t)
    | .put_ => same (cmdPut hook true s t)
    | .save => same (cmdSave hook (t.length + 1) s t)
    | .bye => .ok { st := s, line := line, t := t }
    | .goto => cmdGoto hook s t
    | .if_ =>
      (match realExprAt hook t s with
       | .error e => .error e
       | .ok (x, t1, s1) =>
         match requireK .then_ t1 with
         | .error e => .error e
         | .ok t2 =>
           let t3 := if BNum.eq x BNum.zero then skipToElse 0 t2 else t2
           match t3 with
           | .num _ :: _ => cmdGoto hook s1 t3
           | _ => .ok { st := s1, line := line, t := t3, els := true })
    | .else_ => .ok { st := s, line := line, t := [] }
    | .end_ => .ok { st := s, line := none, t := [] }
    | .stop => .error .stop
    | .for_ =>
      (match varRefAt hook t s with
       | .error e => .error e
       | .ok (name, t1, s1) =>
         if isStrName name then .error (.syntax "error in FOR command") else
         match requireK .eq t1 with
         | .error e => .error e
         | .ok t2 =>
           match realExprAt hook t2 s1 with
           | .error e => .error e
           | .ok (x0, t3, s2) =>
             -- the loop runs on the cell `findvar` designated, whatever the expressions and the body reference later
             let cell := (s1.getVar name).ptr
             let s3 := s2.setVar name ((s2.getVar name).setNumAt cell x0)
             match requireK .to t3 with
             | .error e => .error e
             | .ok t4 =>
               match realExprAt hook t4 s3 with
               | .error e => .error e
               | .ok (mx, t5, s4) =>
                 let stepR : Except Err (α × List (Tok α) × St α) :=
                   if headIs t5 .step then realExprAt hook (t5.drop 1) s4 else .ok (BNum.one, t5, s4)
                 match stepR with
                 | .error e => .error e
                 | .ok (st, t6, s5) =>
                   let v := (s5.getVar name).numAt cell
                   if forSkips v mx st then
                     match scanStream (forSkipStep name) ((0, 0) : Int × Int) (streamFrom s5 line t6) with
                     | none => .error .forWoNext
                     | some (ln, r) => .ok { st := s5, line := ln, t := skipToEos r }
                   else
                     let l : Loop α := { kind := .for_, homeline := line, hometok := t6, var := name, cell := cell,
                                         max := mx, step := st }
                     .ok { st := { s5 with loops := l :: s5.loops }, line := line, t := t6 })
    | .next =>
      let vr : Except Err (Option String × List (Tok α) × St α) :=
        if !isEos t then
          match varRefAt hook t s with
          | .error e => .error e
          | .ok (name, r, s1) => .ok (some name, r, s1)
        else .ok (none, t, s)
      (match vr with
       | .error e => .error e
       | .ok (vn, t1, s1) =>
         match popTo (fun l => l.kind == .for_ && (vn.isNone || vn == some l.var)) (fun l => l.kind == .gosub) s1.loops with
         | none => .error .nextWoFor
         | some (l, rest) =>
           let var := s1.getVar l.var
           let nv := BNum.add (var.numAt l.cell) l.step
           let s2 := s1.setVar l.var (var.setNumAt l.cell nv)
           if nextContinues nv l.max l.step then
             .ok { st := { s2 with loops := l :: rest }, line := l.homeline, t := l.hometok }
           else .ok { st := { s2 with loops := rest }, line := line, t := t1 })
    | .while_ =>
      let l : Loop α := { kind := .while_, homeline := line, hometok := t, max := BNum.zero, step := BNum.zero }
      let s0 := { s with loops := l :: s.loops }
      if isEos t then .ok { st := s0, line := line, t := t } else
      (match realExprAt hook t s0 with
       | .error e => .error e
       | .ok (x, t1, s1) =>
         if BNum.ne0 x then .ok { st := s1, line := line, t := t1 } else
         match scanStream whileSkipStep (0 : Int) (streamFrom s1 line t1) with
         | none => .error .whileWoWend
         | some (ln, r) => .ok { st := { s1 with loops := s1.loops.drop 1 }, line := ln, t := skipToEos r })
    | .wend =>
      (match popTo (fun l => l.kind == .while_) (fun l => l.kind == .gosub) s.loops with
       | none => .error .wendWoWhile
       | some (l, rest) =>
         let s0 := { s with loops := l :: rest }
         let r1 : Except Err (Bool × List (Tok α) × St α) :=
           if !isEos t then
             match realExprAt hook t s0 with
             | .error e => .error e
             | .ok (x, t1, s1) => .ok (!(BNum.ne0 x), t1, s1)
           else .ok (true, t, s0)
         match r1 with
         | .error e => .error e
         | .ok (found, tok, s1) =>
           let leave (s' : St α) : Except Err (Out α) :=
             .ok { st := { s' with loops := s'.loops.drop 1 }, line := line, t := tok }
           if !found then leave s1 else
           if isEos l.hometok then .ok { st := s1, line := l.homeline, t := l.hometok } else
           match realExprAt hook l.hometok s1 with
           | .error e => .error e
           | .ok (x, t2, s2) =>
             if BNum.eq x BNum.zero then leave s2
             else .ok { st := s2, line := l.homeline, t := t2 })
    | .gosub =>
      let l : Loop α := { kind := .gosub, homeline := line, hometok := t, max := BNum.zero, step := BNum.zero }
      cmdGoto hook { s with loops := l :: s.loops } t
    | .return_ =>
      (match popTo (fun l => l.kind == .gosub) (fun _ => false) s.loops with
       | none => .error .returnWoGosub
       | some (l, rest) => .ok { st := { s with loops := rest }, line := l.homeline, t := skipToEos l.hometok })
    | .read => same (cmdRead hook (t.length + 1) s t)
    | .data => .ok { st := s, line := line, t := skipToEos t }
    | .restore =>
      if isEos t then .ok { st := { s with dataline := none, datatok := [] }, line := line, t := t } else
      (match intExprAt hook t s with
       | .error e => .error e
       | .ok (n, r, s1) => match findLine s1 n with
         | none => .error .undefLine
         | some i => .ok { st := { s1 with dataline := some i, datatok := lineToks s1 i }, line := line, t := r })
    | .on =>
      (match intExprAt hook t s with
       | .error e => .error e
       | .ok (i, t1, s1) =>
         let r1 : Except Err (St α × List (Tok α)) :=
           if headIs t1 .gosub then
             let l : Loop α := { kind := .gosub, homeline := line, hometok := t1, max := BNum.zero, step := BNum.zero }
             .ok ({ s1 with loops := l :: s1.loops }, t1.drop 1)
           else match requireK .goto t1 with
             | .error e => .error e
             | .ok r => .ok (s1, r)
         match r1 with
         | .error e => .error e
         | .ok (s2, t2) =>
           if i < 1 then .ok { st := s2, line := line, t := skipToEos t2 } else
           match onSkip (t2.length + 1) i t2 with
           | .error e => .error e
           | .ok t3 => if !isEos t3 then cmdGoto hook s2 t3 else .ok { st := s2, line := line, t := t3 })
    | .dim => same (cmdDim hook (t.length + 1) s t)
    | .erase => same (cmdErase (t.length + 1) s t)
    | .other n => if stmtOther n then .error (.unsupported n) else .error .illegal
    | _ => .error .illegal

/-- one step of `exec` -/
def step (hook : Hook α) (c : Cfg α) : StepRes α :=
  let advance (s : St α) (line : Option Nat) (goto : Bool) : StepRes α :=
    match line with
    | none => .done s
    | some i =>
      let j := if goto then i else i + 1
      if j < s.lines.length then .cont { st := s, line := some j, tok := lineToks s j } else .done s
  let stmttok := c.tok.dropWhile (fun tk => tk.isK .colon)
  match stmttok with
  | [] => advance c.st c.line false
  | head :: t =>
    match execStmt hook c.st c.line head t with
    | .error e => .err e c.st
    | .ok o =>
      if !o.els && !isEos o.t then .err .extra o.st
      else if o.t.isEmpty then advance o.st o.line o.goto
      else .cont { st := o.st, line := o.line, tok := o.t }

inductive Outcome (α : Type) where
  | done (s : St α)
  | err (e : Err) (s : St α)
  | fuel (s : St α)

def runLoop (hook : Hook α) : Nat → Cfg α → Outcome α
  | 0, c => .fuel c.st
  | n + 1, c => match step hook c with
    | .cont c' => runLoop hook n c'
    | .done s => .done s
    | .err e s => .err e s

/-- evaluation of the text given to `VAL`, nesting depth bounded -/
def valHook : Nat → Hook α
  | 0 => fun _ _ => .error .fuel
  | d + 1 => fun txt s =>
    match lexLine (α := α) txt.toList with
    | .error e => .error (.lex e)
    | .ok [] => .ok (.num BNum.zero, s)
    | .ok ts =>
      match parseExpr ts with
      | .error e => .error e
      | .ok (e, _) => eval (valHook d) e s

def theHook : Hook α := valHook 6

/-- `parseinput` for a numbered line: replace / insert in the sorted line list (an empty line only deletes) -/
def storeLine (lines : List (Line α)) (n : Nat) (toks : List (Tok α)) : List (Line α) :=
  let without := lines.filter (fun l => l.num != n)
  if toks.isEmpty then without else
  (without.takeWhile (fun l => l.num < n)) ++ [{ num := n, toks := toks }] ++ (without.dropWhile (fun l => l.num < n))

/-- `basic_compile`: every logical line goes through `parseinput`; an unnumbered line is executed at once -/
def compile (fuel : Nat) : St α → List (List Char) → Outcome α
  | s, [] => .done s
  | s, raw :: rest =>
    let (n, body) := splitLineNumber raw
    if lineNumberTooLarge raw then .err .lineTooLarge s else
    match lexLine (α := α) body with
    | .error e => .err (.lex e) s
    | .ok toks =>
      if n != 0 then
        compile fuel { s with lines := storeLine s.lines n toks, loops := [], dataline := none, datatok := [] } rest
      else if toks.isEmpty then compile fuel s rest
      else match runLoop theHook fuel { st := s, line := none, tok := toks } with
        | .done s' => compile fuel s' rest
        | o => o

/-- what outlives a BASIC program in the engine: the PUT/PUT$ store (`save_values`, `save_strings` of `Phreeqc`), the
interpreter's `punch_tab` / `skip_punch` members and the engine's `output_newline` flag. Lines, variables, loops and
the DATA pointer belong to the program definition and start fresh. -/
def carryOver (s : St α) : St α :=
  { hp := s.hp, putN := s.putN, putS := s.putS, punchTab := s.punchTab, skipPunch := s.skipPunch,
    outNewline := s.outNewline }

/-- `basic_compile` followed by `basic_run("run")`, starting from what an earlier program left in the engine -/
def compileAndRunFrom (s0 : St α) (fuel : Nat) (text : String) : Outcome α :=
  match compile fuel s0 (logicalLines text.toList) with
  | .done s =>
    let s1 := { s with vars := [], loops := [], dataline := none, datatok := [] }
    if s1.lines.isEmpty then .done s1
    else runLoop theHook fuel { st := s1, line := some 0, tok := lineToks s1 0 }
  | o => o

/-- `basic_compile` followed by `basic_run("run")` -/
def compileAndRun (hp : Bool) (fuel : Nat) (text : String) : Outcome α :=
  match compile fuel ({ hp := hp } : St α) (logicalLines text.toList) with
  | .done s =>
    let s0 := { s with vars := [], loops := [], dataline := none, datatok := [] }
    if s0.lines.isEmpty then .done s0
    else runLoop theHook fuel { st := s0, line := some 0, tok := lineToks s0 0 }
  | o => o

/-! ### the four hosts -/

inductive Host where
  | userPunch | userPrint | rates | calculateValues
deriving DecidableEq, Repr

/-- what a host delivers for one evaluation of its program -/
inductive HostOut (α : Type) where
  | punched (cells : List (Val α))       -- USER_PUNCH: the PUNCH items of the row
  | printed (text : String)              -- USER_PRINT: the text written to the output
  | saved (x : α)                        -- RATES / CALCULATE_VALUES: the last SAVE value
  | basicError                           -- "Fatal Basic error …" / "… not SAVEed …"
  | noAnswer                             -- reference evaluation out of fuel

/-- observation of a run under a host convention: every host sees a projection of the *same* run -/
def hostOut (h : Host) : Outcome α → HostOut α
  | .fuel _ => .noAnswer
  | .err _ _ => .basicError
  | .done s => match h with
    | .userPunch => .punched s.punch.toList
    | .userPrint => .printed (String.join s.prints.toList ++ (if s.outNewline then "\n" else ""))
    | .rates | .calculateValues => match s.save with
      | none => .basicError
      | some x => if BNum.isNaN x then .basicError else .saved x

/-! ### FOR / NEXT as a function of the three numbers (the control decisions are `forSkips` / `nextContinues`,
the very functions `execStmt` calls) -/

/-- body executions from the value `v` on: the values the body sees, and the value the variable is left with -/
def forBody (mx step : α) : Nat → α → List α × α
  | 0, v => ([], v)
  | fuel + 1, v =>
    let v' := BNum.add v step                     -- NEXT: increment, then test
    if nextContinues v' mx step then
      let (vs, fin) := forBody mx step fuel v'
      (v :: vs, fin)
    else ([v], v')

/-- `FOR var = start TO mx STEP step … NEXT var` whose body leaves `var` alone -/
def forLoop (start mx step : α) (fuel : Nat) : List α × α :=
  if forSkips start mx step then ([], start) else forBody mx step fuel start

end Exec

end PhreeqcVerif.Basic
