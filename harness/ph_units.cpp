// Correspondence / metamorphic harness of property C15 (unit conversion, water scaling, mixing algebra).
// Line protocol (stdin): one op per line, strings as hex.
//   db <hexpath>                 database used by every later op (a fresh IPhreeqc + LoadDatabase per op)
//   conv <hexinput>              run the input; at every CALLBACK(x1,x2,"tot") issued while an *initial solution* is
//                                punched, dump the solution `use` points to: this is the state convert_units left
//                                (totals map as the real run uses it), before xsolution_save overwrites it.
//                                If x1 == 2 the real convert_units is invoked once more on a private copy with the
//                                engine's current state (density_iterations > 0 branch, kgw_kgs, solution volume).
//   cu <hextoken> <alk> <compat> <hexdefault>   both check_units copies on one token
//   run <hexinput>               run the input, print the selected-output table of user number 1 (cells as hex doubles)
//   mix <hexinput> <n>           run the input, then (friend access) xsolution_zero(); add_mix(MIX n) and
//                                cxxSolution(Rxn_solution_map, mix, 0): print every input solution and both results
// No RNG, no clock.
#ifndef CPPUNIT
#define CPPUNIT 1
#endif
#include "IPhreeqc.hpp"
#include "Phreeqc.h"
#include "Solution.h"
#include "ISolution.h"
#include "ISolutionComp.h"
#include "cxxMix.h"
#include "hx.hpp"
#include <cmath>

using hx::hex; using hx::hexd;

struct Cookie { IPhreeqc* p; std::vector<std::string> out; std::string units_in; };

class TestIPhreeqc {
public:
  static Phreeqc* engine(IPhreeqc* p) { return p->PhreeqcPtr; }

  static void dump_initial(Cookie* ck, double x1) {
    Phreeqc* e = ck->p->PhreeqcPtr;
    if (e->state != INITIAL_SOLUTION) return;
    cxxSolution* s = e->use.Get_solution_ptr();
    if (!s || !s->Get_initial_data()) return;
    double gh = 0, goh = 0;
    e->compute_gfw("H", &gh); e->compute_gfw("OH", &goh);
    std::ostringstream o;
    o << "S " << s->Get_n_user() << " " << hexd(s->Get_density()) << " " << hexd(s->Get_mass_water()) << " "
      << hexd(s->Get_ph()) << " " << hexd(gh) << " " << hexd(goh) << " " << e->density_iterations << " "
      << hexd(e->kgw_kgs) << " " << hex(s->Get_initial_data()->Get_units()) << " "
      << (s->Get_initial_data()->Get_calc_density() ? 1 : 0) << " " << hexd(s->Get_tc()) << " " << hexd(s->Get_pe()) << " "
      << hexd(s->Get_patm());
    ck->out.push_back(o.str());
    const std::map<std::string, cxxISolutionComp>& comps = s->Get_initial_data()->Get_comps();
    for (std::map<std::string, cxxISolutionComp>::const_iterator it = comps.begin(); it != comps.end(); ++it) {
      const cxxISolutionComp& c = it->second;
      std::string d = c.Get_description();
      std::string tok = d.substr(0, d.find(' '));
      class master* m = e->master_bsearch(tok.c_str());
      std::ostringstream l;
      l << "C " << hex(d) << " " << hexd(c.Get_input_conc()) << " " << hex(c.Get_units()) << " " << hex(c.Get_as())
        << " " << hexd(c.Get_gfw()) << " " << (m ? hexd(m->gfw) : std::string("-")) << " "
        << ((m && m->minor_isotope == TRUE) ? 1 : 0);
      ck->out.push_back(l.str());
    }
    const cxxNameDouble& t = s->Get_totals();
    for (cxxNameDouble::const_iterator it = t.begin(); it != t.end(); ++it)
      ck->out.push_back("T " + hex(it->first) + " " + hexd(it->second));
    if (x1 == 2.0) {
      // the real convert_units on a private copy, engine state as it is now (density_iterations >= 1)
      cxxSolution copy(*s);
      double mw_save = e->mass_water_aq_x;
      int ie = e->input_error;
      // gfw of the copy's comps is what the first pass stored (the code re-uses it: gfw > 0 is "given")
      copy.Get_initial_data()->Set_units(ck->units_in.c_str());
      double soln_vol = e->calc_solution_volume();
      class species* soh = e->s_search("OH-");
      std::ostringstream r;
      r << "R " << e->density_iterations << " " << hexd(e->kgw_kgs) << " " << hexd(copy.Get_density()) << " "
        << hexd(e->s_hplus->moles) << " " << hexd(soh ? soh->moles : 0.0) << " " << hexd(soln_vol);
      ck->out.push_back(r.str());
      e->convert_units(&copy);
      const cxxNameDouble& t2 = copy.Get_totals();
      for (cxxNameDouble::const_iterator it = t2.begin(); it != t2.end(); ++it)
        ck->out.push_back("U " + hex(it->first) + " " + hexd(it->second));
      e->mass_water_aq_x = mw_save;
      e->input_error = ie;
    }
    ck->out.push_back("E");
  }

  // both copies of check_units on one token: Phreeqc::check_units (read.cpp) and CParser::check_units (Parser.cxx)
  static void check_units(IPhreeqc* p, const std::string& tok, bool alk, bool compat, const std::string& dflt) {
    Phreeqc* e = p->PhreeqcPtr;
    std::string a = tok, b = tok;
    int ie = e->input_error;
    int r1 = e->check_units(a, alk, compat, dflt.c_str(), false);
    CParser parser(e->phrq_io);
    int r2 = parser.check_units(b, alk, compat, dflt, false);
    e->input_error = ie;
    std::cout << "CU " << (r1 == OK ? hex(a) : std::string("ERR")) << " " << (r2 == CParser::PARSER_OK ? hex(b) : std::string("ERR")) << "\n";
  }

  static void print_solution(const char* tag, int n, const cxxSolution& s) {
    std::cout << tag << " " << n << " " << hexd(s.Get_tc()) << " " << hexd(s.Get_ph()) << " " << hexd(s.Get_pe()) << " "
              << hexd(s.Get_mu()) << " " << hexd(s.Get_ah2o()) << " " << hexd(s.Get_density()) << " "
              << hexd(s.Get_total_h()) << " " << hexd(s.Get_total_o()) << " " << hexd(s.Get_cb()) << " "
              << hexd(s.Get_mass_water()) << " " << hexd(s.Get_patm()) << " " << hexd(s.Get_total_alkalinity());
    const cxxNameDouble& t = s.Get_totals();
    for (cxxNameDouble::const_iterator it = t.begin(); it != t.end(); ++it)
      std::cout << " " << hex(it->first) << ":" << hexd(it->second);
    std::cout << "\n";
  }

  static void do_mix(IPhreeqc* p, int n) {
    Phreeqc* e = p->PhreeqcPtr;
    std::map<int, cxxMix>::iterator mit = e->Rxn_mix_map.find(n);
    if (mit == e->Rxn_mix_map.end()) { std::cout << "MIX missing\n"; return; }
    cxxMix& mix = mit->second;
    std::cout << "MIX " << n;
    for (std::map<int, LDBLE>::const_iterator it = mix.Get_mixComps().begin(); it != mix.Get_mixComps().end(); ++it)
      std::cout << " " << it->first << ":" << hexd(it->second);
    std::cout << "\n";
    for (std::map<int, LDBLE>::const_iterator it = mix.Get_mixComps().begin(); it != mix.Get_mixComps().end(); ++it) {
      std::map<int, cxxSolution>::iterator sit = e->Rxn_solution_map.find(it->first);
      if (sit != e->Rxn_solution_map.end()) print_solution("SOL", it->first, sit->second);
    }
    // (1) step.cpp: add_mix accumulating into the engine's master totals and _x variables
    e->xsolution_zero();
    int ie = e->input_error;
    e->add_mix(&mix);
    std::cout << "AM " << hexd(e->tc_x) << " " << hexd(e->ph_x) << " " << hexd(e->solution_pe_x) << " " << hexd(e->mu_x)
              << " " << hexd(e->ah2o_x) << " " << hexd(e->density_x) << " " << hexd(e->total_h_x) << " "
              << hexd(e->total_o_x) << " " << hexd(e->cb_x) << " " << hexd(e->mass_water_aq_x) << " " << hexd(e->patm_x)
              << " " << (e->input_error - ie);
    for (size_t i = 0; i < e->master.size(); i++)
      if (e->master[i]->total != 0.0)
        std::cout << " " << hex(e->master[i]->elt->name) << ":" << hexd(e->master[i]->total);
    std::cout << "\n";
    // (2) Solution.cxx: the mixing constructor (cxxSolution::add per component)
    cxxSolution mixed(e->Rxn_solution_map, mix, 0, e->phrq_io);
    print_solution("CM", 0, mixed);
    // (3) cxxSolution::multiply on a copy of the first solution (factor = first fraction)
    if (!mix.Get_mixComps().empty()) {
      std::map<int, cxxSolution>::iterator sit = e->Rxn_solution_map.find(mix.Get_mixComps().begin()->first);
      if (sit != e->Rxn_solution_map.end()) {
        cxxSolution c(sit->second);
        c.multiply(mix.Get_mixComps().begin()->second);
        print_solution("MU", sit->first, c);
      }
    }
  }
};

static double cb(double x1, double x2, const char* str, void* cookie) {
  Cookie* ck = (Cookie*)cookie;
  if (str && std::string(str) == "tot") TestIPhreeqc::dump_initial(ck, x1);
  return 0.0;
}

static std::string showVar(const VAR& v) {
  switch (v.type) {
    case TT_EMPTY: return "E";
    case TT_ERROR: return "X" + std::to_string((int)v.vresult);
    case TT_LONG: return "L" + std::to_string(v.lVal);
    case TT_DOUBLE: return "D" + hexd(v.dVal);
    case TT_STRING: return "S" + hex(v.sVal ? v.sVal : "");
  }
  return "?";
}

int main() {
  std::string db, line;
  while (std::getline(std::cin, line)) {
    std::vector<std::string> w = hx::words(line);
    if (w.empty()) continue;
    if (w[0] == "db" && w.size() == 2) { db = hx::unhex(w[1]); std::cout << "DB\n"; continue; }
    if (w[0] == "cu" && w.size() == 5) {
      static IPhreeqc* pc = 0;
      if (!pc) { pc = new IPhreeqc(); pc->LoadDatabase(db.c_str()); }
      TestIPhreeqc::check_units(pc, hx::unhex(w[1]), w[2] == "1", w[3] == "1", hx::unhex(w[4]));
      std::cout << "END\n";
      continue;
    }
    if ((w[0] == "conv" || w[0] == "run" || w[0] == "mix") && w.size() >= 2) {
      IPhreeqc* p = new IPhreeqc();
      Cookie ck; ck.p = p;
      if (w[0] == "conv" && w.size() >= 3) ck.units_in = hx::unhex(w[2]);
      int nerr = p->LoadDatabase(db.c_str());
      if (nerr) { std::cout << "LOADFAIL " << nerr << "\n"; delete p; continue; }
      p->SetBasicCallback(cb, &ck);
      p->SetSelectedOutputFileOn(false);
      p->SetOutputFileOn(false); p->SetErrorFileOn(false); p->SetLogFileOn(false); p->SetDumpFileOn(false);
      p->SetErrorStringOn(true);
      int rc = p->RunString(hx::unhex(w[1]).c_str());
      if (w[0] == "conv") {
        std::cout << "CONV " << rc << " " << ck.out.size() << "\n";
        for (size_t i = 0; i < ck.out.size(); i++) std::cout << ck.out[i] << "\n";
        if (rc) std::cout << "ERR " << hex(p->GetErrorString()) << "\n";
        std::cout << "END\n";
      } else if (w[0] == "run") {
        p->SetCurrentSelectedOutputUserNumber(1);
        int nr = p->GetSelectedOutputRowCount(), nc = p->GetSelectedOutputColumnCount();
        std::cout << "RUN " << rc << " " << nr << " " << nc << "\n";
        for (int r = 0; r < nr; r++) {
          std::cout << "V";
          for (int c = 0; c < nc; c++) { VAR v; VarInit(&v); p->GetSelectedOutputValue(r, c, &v); std::cout << " " << showVar(v); VarClear(&v); }
          std::cout << "\n";
        }
        if (rc) std::cout << "ERR " << hex(p->GetErrorString()) << "\n";
        std::cout << "END\n";
      } else {
        std::cout << "MIXRUN " << rc << "\n";
        if (rc == 0 && w.size() >= 3) TestIPhreeqc::do_mix(p, std::stoi(w[2]));
        else if (rc) std::cout << "ERR " << hex(p->GetErrorString()) << "\n";
        std::cout << "END\n";
      }
      delete p;
      continue;
    }
    std::cout << "bad-op\n";
  }
  return 0;
}
