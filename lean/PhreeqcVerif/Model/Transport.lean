/-! Executable model of the one-dimensional column of `transport.cpp` / `advection.cpp` (property C11).

* `initMix` — the **non-multicomponent** branch of `Phreeqc::init_mix` exactly as coded, over `Rat`:
  dispersive factor `2/dav` with the harmonic term `dav = L_i/α_i + L_j/α_j` over the cells with non-zero
  dispersivity (the local is reset per pair since the `fix:` commit 02a99847; DESIGN §6 item 7), diffusive factor
  `2·D·Δt / (L_i² + L_i·L_j)`, `corr_disp`, the three boundary conditions (1 constant, 2 closed, 3 flux),
  the running maximum `maxmix`, `nmix = 1 + ⌊1.5·maxmix⌋` (at least 2 with flow and a constant boundary),
  the division of every factor by `nmix` and the triple `(m[i], 1 − m[i] − m1[i], m1[i])` stored in
  `Dispersion_mix_map[i]` for cells `i−1, i, i+1`.
* `mixStep` — one dispersive/diffusive sub-mix as executed by `transport()` + `add_mix`: every cell `i` of
  the column is replaced by `m[i]·old(i−1) + self·old(i) + m1[i]·old(i+1)` (Jacobi: the freshly computed cell
  is parked in solution −2 and copied back one iteration later; the boundary solutions 0 and n+1 are not
  changed). `add_mix` multiplies *moles* (totals, total H, total O, charge balance, water mass) by the
  fraction, so the update is linear in every extensive quantity — the model is stated for one such
  quantity; a solution is a vector of them.
* `shiftF`, `shiftB` — the advective copy loop `Rxn_copy(i − ishift, i)`.
* `transportStep`, `transportRun` — order of sub-mixes and shift within a transport step
  (`⌊nmix/2⌋` sub-mixes *before* the shift when a boundary is constant or there is no flow, the rest after),
  iterated over the shifts; `advectionRun` — the ADVECTION keyword (shift only).

The value type is generic (`Float` executes the end-to-end comparison, `Rat` carries the theorems). -/
namespace PhreeqcVerif.Transport

/-- `cell_data[i].length`, `cell_data[i].disp` -/
structure Cell where
  len : Rat
  disp : Rat
deriving Repr, DecidableEq

/-- flow direction: `ishift` = 1, −1, 0 -/
inductive Flow where
  | forward | back | none
deriving Repr, DecidableEq

/-- what `init_mix` reads -/
structure Setup where
  cells : List Cell          -- cells 1..count_cells
  flow : Flow                -- ishift
  bconFirst : Nat            -- 1 constant, 2 closed, 3 flux
  bconLast : Nat
  correctDisp : Bool
  diffc : Rat                -- diffc_tr
  timest : Rat
deriving Repr

def Setup.n (s : Setup) : Nat := s.cells.length

/-- `ishift != 0` -/
def Setup.moving (s : Setup) : Bool := s.flow != Flow.none

/-- `corr_disp` -/
def corrDisp (s : Setup) : Rat :=
  if s.correctDisp && s.moving then
    1 + (if s.bconFirst = 3 then 1 / (s.n : Rat) else 0) + (if s.bconLast = 3 then 1 / (s.n : Rat) else 0)
  else 1

/-- `diffc_here = 2 * diffc_tr * timest` -/
def diffcHere (s : Setup) : Rat := 2 * s.diffc * s.timest

/-- `dav = 0.0; if (cell_data[i].disp) dav = L_i/α_i; if (cell_data[j].disp) dav += L_j/α_j;` — the local is
reset at the start of each block (since /repo commit 02a99847; before it a zero-dispersivity cell re-used the value
left by the previous pair, which made `m1[i] ≠ m[i+1]` and lost mass — the C11 finding `stale dav`). The incoming
value of the local is therefore irrelevant; it is still threaded through the loop as in the code. -/
def davUpd (_dav : Rat) (c nb : Cell) : Rat :=
  let d := if c.disp ≠ 0 then c.len / c.disp else 0
  if nb.disp ≠ 0 then d + nb.len / nb.disp else d

/-- `if (ishift != 0) { … if (dav) m = 2 / dav; }`: the dispersive part of a factor -/
def dispPart (moving : Bool) (dav : Rat) : Rat := if moving && decide (dav ≠ 0) then 2 / dav else 0

/-- `dav` after the two conditional statements (only executed with flow) -/
def newDav (s : Setup) (dav : Rat) (c nb : Cell) : Rat := if s.moving then davUpd dav c nb else dav

/-- mixing factor of cell `c` with its neighbour `nb` before the division by `nmix`, and the new `dav` -/
def neighbourMix (s : Setup) (dav : Rat) (c nb : Cell) : Rat × Rat :=
  ((dispPart s.moving (newDav s dav c nb) + diffcHere s / (c.len * c.len + c.len * nb.len)) * corrDisp s,
   newDav s dav c nb)

/-- the `if (i < count_cells)` block: factor `m1[i]` with the higher cell (0 for the last cell) and `dav` -/
def hiBlock (s : Setup) (dav : Rat) (c : Cell) : List Cell → Rat × Rat
  | [] => (0, dav)
  | nx :: _ => neighbourMix s dav c nx

/-- the `if (i > 1)` block: factor `m[i]` with the lower cell (0 for the first cell) and `dav` -/
def loBlock (s : Setup) (dav : Rat) (c : Cell) : Option Cell → Rat × Rat
  | none => (0, dav)
  | some pv => neighbourMix s dav c pv

/-- the loop `for (i = 1; i <= count_cells; i++)` of the non-multicomponent branch: for every cell the
pair `(m[i], m1[i])` (factor with the lower, with the higher cell); `prev` is cell `i−1` (none for
`i = 1`), `dav` the local of the code. First the `i < count_cells` block, then the `i > 1` block, as in the code. -/
def cellLoop (s : Setup) : Option Cell → List Cell → Rat → List (Rat × Rat)
  | _, [], _ => []
  | prev, c :: rest, dav =>
    let hi := hiBlock s dav c rest
    let lo := loBlock s hi.2 c prev
    (lo.1, hi.1) :: cellLoop s (some c) rest lo.2

def modHead {β : Type} (f : β → β) : List β → List β
  | [] => []
  | x :: xs => f x :: xs

def modLast {β : Type} (f : β → β) : List β → List β
  | [] => []
  | [x] => [f x]
  | x :: y :: xs => x :: modLast f (y :: xs)

/-- `if (mf12 > maxmix) maxmix = mf12` -/
def updMax (mx v : Rat) : Rat := if v > mx then v else mx

def pairSum (p : Rat × Rat) : Rat := p.1 + p.2

/-- boundary factor `diffc_here / L² (+ disp / L with flow)` of a constant-concentration boundary -/
def boundaryMix (s : Setup) (c : Cell) : Rat :=
  diffcHere s / (c.len * c.len) + (if s.moving then c.disp / c.len else 0)

/-- running maximum of `m[i] + m1[i]` over the cell loop -/
def loopMax (ps : List (Rat × Rat)) : Rat := ps.foldl (fun mx p => updMax mx (pairSum p)) 0

/-- `if (bcon_first == 1) m[1] = …` -/
def firstFix (s : Setup) (ps : List (Rat × Rat)) : List (Rat × Rat) :=
  if s.bconFirst = 1 then
    match s.cells.head? with
    | some c => modHead (fun p => (boundaryMix s c, p.2)) ps
    | none => ps
  else ps

/-- `mf12 = m[1] + m1[1]; if (mf12 > maxmix) maxmix = mf12` inside `if (bcon_first == 1)` -/
def firstMax (s : Setup) (ps1 : List (Rat × Rat)) (mx : Rat) : Rat :=
  if s.bconFirst = 1 then
    match ps1.head? with
    | some p => updMax mx (pairSum p)
    | none => mx
  else mx

/-- `if (bcon_last == 1) m1[count_cells] = …` -/
def lastFix (s : Setup) (ps : List (Rat × Rat)) : List (Rat × Rat) :=
  if s.bconLast = 1 then
    match s.cells.getLast? with
    | some c => modLast (fun p => (p.1, boundaryMix s c)) ps
    | none => ps
  else ps

def lastMax (s : Setup) (ps2 : List (Rat × Rat)) (mx : Rat) : Rat :=
  if s.bconLast = 1 then
    match ps2.getLast? with
    | some p => updMax mx (pairSum p)
    | none => mx
  else mx

/-- the factors before division by `nmix`, and `maxmix`, in the order the code computes them -/
def rawMix (s : Setup) : List (Rat × Rat) × Rat :=
  let ps := cellLoop s none s.cells 0
  let ps1 := firstFix s ps
  let mx1 := firstMax s ps1 (loopMax ps)
  let ps2 := lastFix s ps1
  (ps2, lastMax s ps2 mx1)

/-- `l_nmix` as a function of `maxmix` -/
def nmixOf (s : Setup) (maxmix : Rat) : Nat :=
  if maxmix = 0 then 0 else
    let k := 1 + ((3 / 2 : Rat) * maxmix).floor.toNat
    if s.moving && (s.bconFirst = 1 || s.bconLast = 1) then (if k < 2 then 2 else k) else k

/-- weights of one cell in `Dispersion_mix_map`: cell `i−1`, cell `i`, cell `i+1` -/
structure W (α : Type) where
  l : α
  s : α
  r : α
deriving Repr

/-- the entries of `Dispersion_mix_map` for a given number of sub-mixes (empty when `nmix = 0`) -/
def weightsWith (ps : List (Rat × Rat)) (nmix : Nat) : List (W Rat) :=
  if nmix = 0 then [] else
    ps.map fun p => { l := p.1 / (nmix : Rat), s := 1 - p.1 / (nmix : Rat) - p.2 / (nmix : Rat), r := p.2 / (nmix : Rat) }

structure MixPlan where
  nmix : Nat
  weights : List (W Rat)
  maxmix : Rat
deriving Repr

/-- `init_mix()` (non-multicomponent branch): number of sub-mixes and the mixing map -/
def initMix (s : Setup) : MixPlan :=
  let r := rawMix s
  let k := nmixOf s r.2
  { nmix := k, weights := weightsWith r.1 k, maxmix := r.2 }

/-! ### the column -/

/-- one extensive quantity in the boundary solutions `0`, `n+1` and the cells `1..n` -/
structure Col (α : Type) where
  first : α
  cells : List α
  last : α
deriving Repr

section run
variable {α : Type} [Add α] [Mul α]

/-- cells from `i` on: `prev` = old content of cell `i−1`, next = old content of cell `i+1` (or boundary `n+1`) -/
def mixGo (last : α) : α → List α → List (W α) → List α
  | _, [], _ => []
  | _, x :: rest, [] => x :: rest
  | prev, x :: rest, w :: ws =>
    (w.l * prev + w.s * x + w.r * rest.headD last) :: mixGo last x rest ws

/-- one sub-mix over the column -/
def mixStep (ws : List (W α)) (c : Col α) : Col α :=
  { c with cells := mixGo c.last c.first c.cells ws }

/-- forward shift: `for (i = n; i >= 1; i--) copy(i−1 → i)` -/
def shiftF (c : Col α) : Col α := { c with cells := (c.first :: c.cells).dropLast }

/-- backward shift: `for (i = 1; i <= n; i++) copy(i+1 → i)` -/
def shiftB (c : Col α) : Col α :=
  { c with cells := match c.cells with
      | [] => []
      | _ :: t => t ++ [c.last] }

def shift (f : Flow) (c : Col α) : Col α :=
  match f with
  | .forward => shiftF c
  | .back => shiftB c
  | .none => c

def iter (f : Col α → Col α) : Nat → Col α → Col α
  | 0, c => c
  | k + 1, c => iter f k (f c)

/-- one transport step (= one "shift" of the TRANSPORT block): `pre` sub-mixes, the advective copy, the
remaining `nmix − pre` sub-mixes -/
def transportStepWith (ws : List (W α)) (nmix pre : Nat) (f : Flow) (c : Col α) : Col α :=
  iter (mixStep ws) (nmix - pre) (shift f (iter (mixStep ws) pre c))

/-- the columns after step 1, 2, …, k -/
def runWith (step : Col α → Col α) : Nat → Col α → List (Col α)
  | 0, _ => []
  | k + 1, c => let c' := step c; c' :: runWith step k c'

end run

/-- `b_c == 1`: diffusion starts before the shift -/
def bC (s : Setup) : Bool := !s.moving || s.bconFirst = 1 || s.bconLast = 1

/-- number of sub-mixes executed before the advective copy -/
def preMixes (s : Setup) (nmix : Nat) : Nat := if bC s then nmix / 2 else 0

/-- one transport step on one extensive quantity -/
def transportStep (s : Setup) (c : Col Rat) : Col Rat :=
  let p := initMix s
  transportStepWith p.weights p.nmix (preMixes s p.nmix) s.flow c

/-- `transport()` for `shifts` steps: the column after every step -/
def transportRun (s : Setup) (shifts : Nat) (c : Col Rat) : List (Col Rat) :=
  runWith (transportStep s) shifts c

/-- the ADVECTION keyword: every step copies solution `i−1` into `i` (no mixing) -/
def advectionRun {α : Type} (shifts : Nat) (c : Col α) : List (Col α) :=
  runWith (fun c => ({ c with cells := (c.first :: c.cells).dropLast } : Col α)) shifts c


/-! ### stagnant zone (`-stagnant 1 exch_f th_m th_im`): first-order exchange between mobile cell `j` and immobile
cell `j + 1 + count_cells`, as set up in `transport()` (`Rxn_mix_map`) and executed by `mix_stag` after every
dispersive sub-mix (and once after the advective copy when `nmix = 0`). -/

/-- the four fractions of a mobile/immobile pair: `Rxn_mix_map[j] = {j: mSelf, j_imm: mFromIm}`,
`Rxn_mix_map[j_imm] = {j: imFromM, j_imm: imSelf}` -/
structure StagW (α : Type) where
  mSelf : α
  mFromIm : α
  imSelf : α
  imFromM : α
deriving Repr

section stagw
variable {α : Type} [Add α] [Sub α] [Mul α] [Div α] [OfNat α 1]

/-- `b = th_m/(th_m+th_im); mix_f_imm = b - b*f; mix_f_m = mix_f_imm*th_im/th_m` with
`f = exp(-exch_f*stagkin_time/(b*th_im))` supplied by the caller (transcendental) -/
def stagFactors (f thM thIm : α) : α × α :=
  let b := thM / (thM + thIm)
  let imm := b - b * f
  (imm * thIm / thM, imm)

/-- the `cxxMix` entries for one pair; `wm`, `wim` are the water masses of the mobile and immobile solution -/
def stagWeights (f thM thIm wm wim : α) : StagW α :=
  let p := stagFactors f thM thIm
  { mSelf := 1 - p.1, mFromIm := p.1 * wm / wim, imSelf := 1 - p.2, imFromM := p.2 * wim / wm }
end stagw

section stagrun
variable {α : Type} [Add α] [Mul α]

/-- `mix_stag` over all cells: mobile and immobile cell are both computed from the *old* pair (the results are parked
in solutions −2 and −2−k and copied back afterwards); a mobile cell without stagnant solution is left alone -/
def stagGo : List α → List α → List (Option (StagW α)) → List α × List α
  | m :: ms, i :: is, some w :: ws =>
    let r := stagGo ms is ws
    ((w.mSelf * m + w.mFromIm * i) :: r.1, (w.imFromM * m + w.imSelf * i) :: r.2)
  | m :: ms, i :: is, none :: ws =>
    let r := stagGo ms is ws
    (m :: r.1, i :: r.2)
  | ms, is, _ => (ms, is)

/-- mobile column + immobile cells (one per mobile cell; the value of an absent stagnant cell is never used) -/
structure SCol (α : Type) where
  mob : Col α
  imm : List α
deriving Repr

def stagApply (sw : List (Option (StagW α))) (c : SCol α) : SCol α :=
  let r := stagGo c.mob.cells c.imm sw
  { mob := { c.mob with cells := r.1 }, imm := r.2 }

/-- one dispersive sub-mix followed by the stagnant exchange -/
def mixStagStep (ws : List (W α)) (sw : List (Option (StagW α))) (c : SCol α) : SCol α :=
  stagApply sw { c with mob := mixStep ws c.mob }

def iterS (f : SCol α → SCol α) : Nat → SCol α → SCol α
  | 0, c => c
  | k + 1, c => iterS f k (f c)

/-- one transport step with a stagnant layer: `pre` × (sub-mix + exchange), advective copy of the mobile cells,
one exchange if there are no sub-mixes at all but there is flow, then the remaining `nmix − pre` × (sub-mix + exchange) -/
def transportStagStepWith (ws : List (W α)) (sw : List (Option (StagW α))) (nmix pre : Nat) (f : Flow) (c : SCol α) : SCol α :=
  let c1 := iterS (mixStagStep ws sw) pre c
  let c2 : SCol α := { c1 with mob := shift f c1.mob }
  let c3 := if nmix = 0 ∧ f ≠ Flow.none then stagApply sw c2 else c2
  iterS (mixStagStep ws sw) (nmix - pre) c3

def runWithS (step : SCol α → SCol α) : Nat → SCol α → List (SCol α)
  | 0, _ => []
  | k + 1, c => let c' := step c; c' :: runWithS step k c'

end stagrun

/-- `transport()` with a stagnant layer for `shifts` steps (exchange fractions `sw` as built from `stagWeights`) -/
def transportStagRun (s : Setup) (sw : List (Option (StagW Rat))) (shifts : Nat) (c : SCol Rat) : List (SCol Rat) :=
  let p := initMix s
  runWithS (transportStagStepWith p.weights sw p.nmix (preMixes s p.nmix) s.flow) shifts c

/-- total inventory of a column with stagnant layer (weights `none` = no stagnant cell there, value ignored) -/
def SCol.sum (c : SCol Rat) : Rat := c.mob.cells.sum + c.imm.sum

/-- column inventory of one quantity (cells 1..n) -/
def Col.sum (c : Col Rat) : Rat := c.cells.sum

end PhreeqcVerif.Transport
