import PhreeqcVerif.Model.NumOps
/-! Reactant assemblages as coded in PHREEQC (property C03).

Anchors: `model.cpp` (`model()`: the `remove_unstable_phases` re-entry; `residuals()` PP / SS_MOLES / EXCH / SURFACE rows;
`check_residuals()`; `ineq()` special case "removing unstable phases"; `reset()` pure-phase part; `set_inert_moles` /
`unset_inert_moles`; `calc_ss_fractions`, `ss_ideal`, `ss_binary`), `prep.cpp` (`build_pure_phases`: `f = lk + si − Σ ν·la`,
`build_ss_assemblage`: `f = lk + log10 x + log10 λ − Σ ν·la`), `tidy.cpp` (`ss_calc_a0_a1`).

Written once over `[NumOps α]`: `Float` executes it (`pmodel assemblage`, fed with the in-process dump of real runs and
with the results of crafted calls of the real `residuals` / `check_residuals` / `ineq` / `reset`); `Rat` with uninterpreted
`ln log10` carries the theorems of `Properties/C03.lean`.

Conventions of the code that the model reproduces:
* a PP unknown has `f = lk + si − IAP` (log10 units), so `SI − target = −f`; `residual = f·LOG_10`;
* `residuals` (decides CONVERGED) only rejects a *supersaturated* phase (`residual < −tol`), or, for `dissolve_only`,
  a present undersaturated one / a supersaturated one below its initial amount; the *present and undersaturated*
  test of an unrestricted phase is in `check_residuals` at `100·tol`, where it does not raise an error but sets
  `remove_unstable_phases`, which makes `model()` run the loop again with `ineq` dissolving those phases completely;
* `check_residuals` prints an ERROR (the call then "completes with errors") for a supersaturated unrestricted phase,
  only a WARNING for a phase with an alternative formula, and nothing but a log line for `dissolve_only`;
* `precipitate_only`: `set_inert_moles` moves the initial amount into `inert_moles` and the solver sees `moles = 0`;
  `unset_inert_moles` adds it back at the end;
* `reset`: `delta > 0` dissolves; a phase cannot lose more than it has (`factor`), a `dissolve_only` phase cannot gain
  more than it has lost since the start of the step; `equal(moles, delta, ineq_tol)` snaps to exactly `0`. -/
namespace PhreeqcVerif.Assemblage
open NumOps

variable {α : Type} [NumOps α] [∀ a b : α, Decidable (a < b)] [∀ a b : α, Decidable (a ≤ b)]

/-- `LOG_10` of the source: `log(10.0)` -/
def LOG_10 : α := ln (lit 10)

def absGt (x t : α) : Bool := decide (t < x) || decide (t < -x)
/-- `fabs(x) < t` -/
def absLt (x t : α) : Bool := decide (x < t) && decide (-x < t)
def absv (x : α) : α := if x < lit 0 then -x else x
def maxv (x y : α) : α := if x < y then y else x
/-- `equal(a, b, eps)` of utilities.cpp: `fabs(a - b) <= eps` -/
def equalTol (a b eps : α) : Bool := decide (absv (a - b) ≤ eps)

/-! ## the unknowns -/

/-- a pure-phase unknown `x[i]` (type PP) as `model()` sees it -/
structure PP (α : Type) where
  moles : α              -- x[i]->moles (precipitate_only: the active part; the initial amount sits in `inert`)
  f : α                  -- x[i]->f = lk + si − Σ ν·la  (= target − SI)
  dissolveOnly : Bool
  addFormula : Bool      -- comp_ptr->Get_add_formula().size() != 0
  initial : α            -- comp_ptr->Get_initial_moles(): amount at the start of the reaction step
  inert : α              -- x[i]->inert_moles
  forceEq : Bool := false
  precipOnly : Bool := false

/-- rows of the Newton system that belong to reactant assemblages -/
inductive Row (α : Type) where
  | pp (u : PP α)
  /-- SS_MOLES: `ss_in`, `f = lk + log10 x + log10 λ − IAP`, moles -/
  | ss (ssIn : Bool) (f moles : α)
  /-- EXCH: `moles` = defined capacity (total of the exchange master), `f` = Σ over exchange species -/
  | exch (moles f : α)
  /-- SURFACE: `moles` = defined sites, `f` = Σ over surface species -/
  | surf (moles f : α)

structure Env (α : Type) where
  tol : α        -- convergence_tolerance
  ineqTol : α    -- ineq_tol
  minRel : α     -- MIN_RELATED_SURFACE

/-- `residual[i]` as `residuals()` computes it -/
def Row.resid : Row α → α
  | .pp u => u.f * LOG_10
  | .ss _ f _ => f * LOG_10
  | .exch m f => m - f
  | .surf m f => m - f

/-- the condition under which `residuals()` sets `converge = FALSE` for the row (`it` = `iterations`) -/
def Row.fails (e : Env α) (it : Nat) (r : Row α) : Bool :=
  match r with
  | .pp u =>
      let res := u.f * LOG_10
      if !u.addFormula then
        if u.dissolveOnly then
          (decide (e.tol < res) && decide (lit 0 < u.moles)) ||
          (decide (res < -e.tol) && decide (lit 0 < u.initial - u.moles))
        else decide (res < -e.tol) || decide (it < 1)
      else decide (res < -e.tol) || decide (it < 1)
  | .ss ssIn f _ => ssIn && absGt (f * LOG_10) e.tol
  | .exch m f =>
      if m ≤ e.minRel then absGt (m - f) e.tol else absGt (m - f) (e.tol * m)
  | .surf m f =>
      let res := m - f
      if m ≤ e.minRel then absGt res e.tol
      else if absLt res e.ineqTol && absLt res (lit (1 / 100) * m) then false
      else absGt res (e.tol * m)

/-- what `check_residuals()` does for a row: (prints an ERROR, sets `remove_unstable_phases`) -/
def Row.check (e : Env α) (r : Row α) : Bool × Bool :=
  match r with
  | .pp u =>
      let res := u.f * LOG_10
      if !u.addFormula then
        if u.dissolveOnly then (false, false)          -- log message only
        else if decide (e.tol * lit 100 ≤ res) && decide (lit 0 < u.moles) then (false, true)
        else if decide (res ≤ -e.tol) then (true, false)
        else (false, false)
      else (false, false)                               -- WARNING only
  | .ss ssIn f _ =>
      if !ssIn then (false, false)
      else (decide (e.tol ≤ f * LOG_10) || decide (f * LOG_10 ≤ -e.tol), false)
  | .exch m f =>
      ((decide (m ≤ e.minRel) && absGt (m - f) e.tol) || (decide (e.minRel < m) && absGt (m - f) (e.tol * m)), false)
  | .surf m f =>
      let res := m - f
      if absLt res e.ineqTol && absLt res (lit (1 / 100) * m) then (false, false)
      else ((decide (m ≤ e.minRel) && absGt res e.tol) || (decide (e.minRel < m) && absGt res (e.tol * m)), false)

/-! ## `ineq()` special case and `reset()` for pure phases -/

/-- `ineq()` when `remove_unstable_phases == TRUE`: `delta[i]` of a PP unknown -/
def removeDelta (u : PP α) : α :=
  if decide (lit 0 < u.f * LOG_10) && decide (lit 0 < u.moles) && !u.addFormula && !u.dissolveOnly then u.moles else lit 0

/-- `reset()`: `if (delta[i] < -1e8) delta[i] = -10; else if (delta[i] > 1e8) delta[i] = 10;` -/
def clampDelta (delta : α) : α :=
  if delta < -(lit 100000000) then -(lit 10) else if lit 100000000 < delta then lit 10 else delta

/-- `reset()`, dissolve_only block: do not precipitate more than was dissolved so far (`initial − moles`);
returns the revised `delta[i]` and `factor` -/
def scanDissolve (u : PP α) (d0 factor : α) : α × α :=
  if u.dissolveOnly && decide (d0 < lit 0) && decide (u.initial - u.moles < -d0) then
    if u.initial - u.moles < lit 0 ∨ lit 0 < u.initial - u.moles then
      let f0 := absv (d0 / (u.initial - u.moles))
      (d0, if factor < f0 then f0 else factor)
    else (lit 0, factor)
  else (d0, factor)

/-- `reset()`: do not remove more than is present; a phase with no mass cannot dissolve -/
def scanRemove (u : PP α) (d1 f1 : α) : α × α :=
  if decide (lit 0 < u.moles) && decide (u.moles < d1) then
    let f0 := d1 / u.moles
    (d1, if f1 < f0 then f0 else f1)
  else if decide (lit 0 < d1) && decide (u.moles ≤ lit 0) then (lit 0, f1)
  else (d1, f1)

/-- first loop of `reset()` for one PP unknown ("in" the model): returns the revised `delta[i]` and the revised `factor` -/
def resetScan (u : PP α) (delta factor : α) : α × α :=
  let p := scanDissolve u (clampDelta delta) factor
  scanRemove u p.1 p.2

/-- scan of all PP unknowns: revised deltas and the common `factor` (starts at 1) -/
def resetScanAll : List (PP α × α) → α → List α × α
  | [], factor => ([], factor)
  | (u, d) :: rest, factor =>
      let (d', f') := resetScan u d factor
      let (ds, f'') := resetScanAll rest f'
      (d' :: ds, f'')

/-- update of one PP unknown with its final (scaled) delta -/
def resetApply (e : Env α) (u : PP α) (delta : α) : PP α :=
  let m1 := if equalTol u.moles delta e.ineqTol then lit 0 else u.moles - delta
  let m2 := if u.dissolveOnly && equalTol m1 u.initial e.ineqTol then u.initial else m1
  { u with moles := m2 }

/-- `reset()` restricted to the PP unknowns: scan, divide every delta by the common factor, update -/
def resetPP (e : Env α) (us : List (PP α × α)) : List (PP α) :=
  let (ds, factor) := resetScanAll us (lit 1)
  (us.zip ds).map fun p => resetApply e p.1.1 (p.2 / factor)

/-! ## `model()` -/

/-- state of `model()` as far as the reactant assemblages are concerned.  `other` = "every other row passes the test
of `residuals`"; `otherErr` = "`check_residuals` reports an error for some other row" -/
structure State (α : Type) where
  env : Env α
  rows : List (Row α)
  iterations : Nat
  removeUnstable : Bool
  other : Bool
  otherErr : Bool

/-- `residuals() == CONVERGED` -/
def converged (s : State α) : Bool := s.other && s.rows.all (fun r => !r.fails s.env s.iterations)

/-- `check_residuals()`: (an ERROR was printed, remove_unstable_phases was set) -/
def checkResiduals (s : State α) : Bool × Bool :=
  (s.otherErr || s.rows.any (fun r => (r.check s.env).1), s.rows.any (fun r => (r.check s.env).2))

/-- `model()`: the loop `while (residuals() != CONVERGED || remove_unstable_phases)` around an ARBITRARY body
`step` (jacobian, `ineq` — which clears `remove_unstable_phases` —, `reset`, `gammas`, `molalities`, `mb_sums`, basis
switches, …), the iteration limit `itmax`, then `check_residuals`; when that sets `remove_unstable_phases` the loop is
entered again.  `fuel` bounds the total number of passes (any value; the theorems hold for all).
`none` = the call ends with an error message or without convergence. -/
def runModel (step : State α → State α) (itmax : Nat) : Nat → State α → Option (State α)
  | 0, _ => none
  | fuel + 1, s =>
    if converged s && !s.removeUnstable then
      let c := checkResiduals s
      if c.1 then none
      else if c.2 then runModel step itmax fuel { s with removeUnstable := true }
      else some s
    else
      let it := s.iterations + 1
      if itmax < it then none
      else
        let s' := step { s with iterations := it }
        runModel step itmax fuel { s' with iterations := it, removeUnstable := false, env := s.env }

/-! ## the property's predicate -/

/-- final public quantities of a mineral: total moles, `SI − target` and the restriction data -/
structure Final (α : Type) where
  moles : α       -- EQUI: total moles (active + inert)
  d : α           -- SI − target
  initial : α     -- moles at the start of the calculation
  dissolveOnly : Bool
  precipOnly : Bool

/-- **ValidPhase** with tolerance `ε` (log10 units):
* unrestricted (also `force_equality`): present ⇒ `|SI − target| ≤ ε`; absent (exactly 0 mol) ⇒ `SI ≤ target + ε`;
* dissolve_only: `moles ≤ initial`; still present ⇒ `SI ≥ target − ε`; below the initial amount ⇒ `SI ≤ target + ε`
  (a phase that is at its initial amount may stay supersaturated: it is not allowed to grow);
* precipitate_only: `moles ≥ initial`; grown ⇒ `|SI − target| ≤ ε`; not grown ⇒ `SI ≤ target + ε`
  (the initial amount may stay although undersaturated: it is not allowed to dissolve). -/
def ValidPhase (ε : α) (p : Final α) : Prop :=
  if p.dissolveOnly then
    p.moles ≤ p.initial ∧ (lit 0 < p.moles → -ε ≤ p.d) ∧ (p.moles < p.initial → p.d ≤ ε) ∧ lit 0 ≤ p.moles
  else if p.precipOnly then
    p.initial ≤ p.moles ∧ (p.initial < p.moles → -ε ≤ p.d ∧ p.d ≤ ε) ∧ p.d ≤ ε
  else
    lit 0 ≤ p.moles ∧ (lit 0 < p.moles → -ε ≤ p.d ∧ p.d ≤ ε) ∧ p.d ≤ ε

/-- the same as a decidable test (used by the driver on `Float`) -/
def validPhaseB (ε : α) (p : Final α) : Bool :=
  if p.dissolveOnly then
    decide (p.moles ≤ p.initial) && (!decide (lit 0 < p.moles) || decide (-ε ≤ p.d)) &&
      (!decide (p.moles < p.initial) || decide (p.d ≤ ε)) && decide (lit 0 ≤ p.moles)
  else if p.precipOnly then
    decide (p.initial ≤ p.moles) && (!decide (p.initial < p.moles) || (decide (-ε ≤ p.d) && decide (p.d ≤ ε))) && decide (p.d ≤ ε)
  else
    decide (lit 0 ≤ p.moles) && (!decide (lit 0 < p.moles) || (decide (-ε ≤ p.d) && decide (p.d ≤ ε))) && decide (p.d ≤ ε)

/-- the public view of a PP unknown after `unset_inert_moles` -/
def PP.final (u : PP α) : Final α :=
  { moles := u.moles + u.inert, d := -u.f, initial := if u.precipOnly then u.inert else u.initial,
    dissolveOnly := u.dissolveOnly, precipOnly := u.precipOnly }

/-- `store_mb`: a term whose coefficient equals 1 within `TOL = 1e-9` goes to `sum_mb1` (added without multiply, in a
first pass), any other term to `sum_mb2` (second pass, multiplied) -/
def isOne (c : α) : Bool := equalTol c (lit 1) (lit (1 / 1000000000))

/-- `mb_sums` for one target: first pass over the unit-coefficient terms, second pass over the others -/
def mbSum (terms : List (α × α)) : α :=
  let p1 := (terms.filter fun t => isOne t.1).foldl (fun acc t => acc + t.2) (lit 0)
  (terms.filter fun t => !isOne t.1).foldl (fun acc t => acc + t.2 * t.1) p1

/-- `f` of a PP unknown as `build_pure_phases` + `mb_sums` accumulate it: terms `(1, lk)`, `(1, si)`, `(−ν, la)…` -/
def ppF (lk si : α) (toks : List (α × α)) : α :=
  mbSum ((lit 1, lk) :: (lit 1, si) :: toks.map fun t => (-t.1, t.2))

/-- `IAP` as `saturation_index` accumulates it -/
def iapOf (toks : List (α × α)) : α := toks.foldl (fun acc t => acc + t.2 * t.1) (lit 0)

/-! ## solid solutions -/

/-- `calc_ss_fractions`: component moles (negative ⇒ MIN_TOTAL_SS) and their sum -/
def ssMoles (minSS : α) (ns : List α) : List α := ns.map fun n => if n < lit 0 then minSS else n
def sumL : List α → α
  | [] => lit 0
  | x :: xs => x + sumL xs
/-- `n_tot` as the loop accumulates it (left to right from 0) -/
def ssTotal (ns : List α) : α := ns.foldl (fun acc n => acc + n) (lit 0)

/-- `ss_ideal` / `calc_ss_fractions`: mole fractions `n_k / n_tot` -/
def ssIdeal (ns : List α) : List α :=
  let t := ssTotal ns
  ns.map fun n => n / t

/-- `f` of an SS_MOLES unknown (`build_ss_assemblage`): terms `(1, lk)`, `(−ν, la)…`, `(1, log10 x)`, `(1, log10 λ)` -/
def ssF (lk lfx llam : α) (toks : List (α × α)) : α :=
  mbSum (((lit 1, lk) :: toks.map fun t => (-t.1, t.2)) ++ [(lit 1, lfx), (lit 1, llam)])

/-- Guggenheim activity coefficients of a binary solid solution as coded in `ss_binary` (natural-log form):
`ln λ_c = x_b²·(a0 − a1·(3 − 4·x_b))`, `ln λ_b = x_c²·(a0 + a1·(4·x_b − 1))` -/
def lnLambdaC (a0 a1 xb : α) : α := xb * xb * (a0 - a1 * (lit 3 - lit 4 * xb))
def lnLambdaB (a0 a1 xb xc : α) : α := xc * xc * (a0 + a1 * (lit 4 * xb - lit 1))

/-- result of `ss_binary`: fractions and log10 lambdas of component 0 (c) and 1 (b) -/
structure Binary (α : Type) where
  xc : α
  xb : α
  l10c : α
  l10b : α

/-- `ss_binary`: inside a miscibility gap (`xb1 < xb < xb2`) the composition is pinned to `xb1` -/
def ssBinary (a0 a1 : α) (misc : Bool) (xb1 xb2 nc nb ntot : α) : Binary α :=
  let xc := nc / ntot
  let xb := nb / ntot
  if misc && decide (xb1 < xb) && decide (xb < xb2) then
    let xc1 := lit 1 - xb1
    { xc := xc1, xb := xb1, l10c := xb1 * xb1 * (a0 - a1 * (lit 3 - lit 4 * xb1)) / LOG_10,
      l10b := xc1 * xc1 * (a0 + a1 * (lit 4 * xb1 - lit 1)) / LOG_10 }
  else
    { xc := xc, xb := xb, l10c := xb * xb * (a0 - a1 * (lit 3 - lit 4 * xb)) / LOG_10,
      l10b := xc * xc * (a0 + a1 * (lit 4 * xb - lit 1)) / LOG_10 }

/-- `ss_calc_a0_a1` for the input forms that are plain formulas: 0 = -Gugg_nondim, 7 = -Gugg_kJ, 8 = -Thompson
(Waldbaum), 9 = -Margules; `rt = tk·R_KJ_DEG_MOL`.  Returns `(a0, a1)`; other forms: `none` -/
def guggParams (icase : Nat) (p0 p1 rt : α) : Option (α × α) :=
  match icase with
  | 0 => some (p0, p1)
  | 7 => some (p0 / rt, p1 / rt)
  | 8 => some ((p0 + p1) / lit 2 / rt, (p0 - p1) / lit 2 / rt)
  | 9 => some (p0 + lit 3 * p1 / lit 4, p1 / lit 4)
  | _ => none

def R_KJ_DEG_MOL : α := lit (83147 / 10000000)

/-- `ss_prep(t, …)` (called by `k_temp` when the temperature differs from the solid solution's `tk` by more than 0.01 K):
`a0 = ag0/(R·t)`, where `ag0 = a0·R·tk` was stored by `ss_calc_a0_a1` -/
def a0AtT (ag0 t : α) : α := ag0 / (R_KJ_DEG_MOL * t)

/-! ## `ineq()`: the rows handed to `cl1`

`ineq()` copies rows of the (column-scaled) Jacobian `my_array` — last column = `residual[i]` — into `ineq_array` in three
sections: rows to optimise (`k`), equality rows (`l`), inequality rows `E·x ≤ f` (`m`), sets the sign restrictions
`res[]` (on optimisation residuals) and `delta1[]` (on variables), and finally zeroes whole columns.  The model covers
the rules for MB/CB/MU/AH2O/MH/MH2O (plain equality copies), ALK / SOLUTION_PHASE_BOUNDARY, PP, EXCH, SURFACE,
SURFACE_CB*, SS_MOLES for the non-Pitzer engine without GAS_PHASE and without `negative_concentrations`; the choice of
the column scale factors `normal[]` is an input (the rows are built from the scaled matrix). -/

/-- an unknown as `ineq()` reads it -/
structure IUnk (α : Type) where
  type : Nat                 -- MB 10, ALK 11, CB 12, SOLUTION_PHASE_BOUNDARY 13, MU 14, AH2O 15, MH 16, MH2O 17, PP 18, EXCH 19,
                             -- SURFACE 20, SURFACE_CB 21, SURFACE_CB1 22, SURFACE_CB2 23, SS_MOLES 25
  moles : α
  f : α
  initial : α                -- PP: comp_ptr->Get_initial_moles()
  grams : α                  -- SURFACE_CB*: grams of the charge structure
  iteration : Nat            -- PP: x[i]->iteration after the "delay removing phase" update
  phaseIn : Bool := true     -- x[i]->phase->in
  dissolveOnly : Bool := false
  addFormula : Bool := false
  forceEq : Bool := false
  ssIn : Bool := false

structure IEnv (α : Type) where
  iterations : Nat
  aqueousOnly : Nat
  equiDelay : Nat
  ppScale : α
  inKode : Nat
  minRel : α                 -- MIN_RELATED_SURFACE
  minTotalSS : α
  massWaterSwitch : Bool
  oxygenIdx : Nat            -- number of mass_oxygen_unknown (≥ count_unknowns when absent)
  hydrogenIdx : Nat
  exchRelated : Bool         -- the exchanger is related to phases or kinetics

/-- a row of `ineq_array`: `dense kind src coef rhs res` (kind 0 = optimise, 1 = equality, 2 = inequality `coef·x ≤ rhs`;
`src` = `back_eq`; `res` = the sign restriction on the residual of an optimisation row), or the one-entry inequality
`c·x_col ≤ rhs` that the pure-phase and solid-solution rules write -/
inductive IRow (α : Type) where
  | dense (kind src : Nat) (coef : List α) (rhs res : α)
  | unit (src col : Nat) (c rhs : α)

def getL (l : List α) (i : Nat) : α := l.getD i (lit 0)

/-- `Σ_j (zeroed column ? 0 : coef_j)·x_j`, accumulated left to right -/
def dotZ : List Bool → List α → List α → α
  | z :: zs, c :: cs, x :: xs => (if z then lit 0 else c * x) + dotZ zs cs xs
  | [], c :: cs, x :: xs => c * x + dotZ [] cs xs
  | _, _, _ => lit 0

def IRow.lhs (z : List Bool) (x : List α) : IRow α → α
  | .dense _ _ coef _ _ => dotZ z coef x
  | .unit _ col c _ => if z.getD col false then lit 0 else c * getL x col
def IRow.rhs : IRow α → α
  | .dense _ _ _ r _ => r
  | .unit _ _ _ r => r
def IRow.kind : IRow α → Nat
  | .dense k _ _ _ _ => k
  | .unit _ _ _ _ => 2
def IRow.src : IRow α → Nat
  | .dense _ s _ _ _ => s
  | .unit s _ _ _ => s

/-- "Undersaturated and no mass" -/
def ppIdle (u : IUnk α) : Bool := decide (lit 0 < u.f) && decide (u.moles ≤ lit 0) && !u.addFormula
/-- dissolve_only phase that is supersaturated and not below its initial amount: it may not move -/
def ppBlocked (u : IUnk α) : Bool := decide (u.f < lit 0) && u.dissolveOnly && decide (lit 0 ≤ u.moles - u.initial)

/-- the column of unknown `u` is zeroed in every row -/
def zeroCol (e : IEnv α) (i : Nat) (u : IUnk α) : Bool :=
  match u.type with
  | 18 => ppIdle u || !u.phaseIn || ppBlocked u
  | 19 => e.exchRelated && decide (u.moles ≤ lit 0)
  | 20 => decide (u.moles ≤ e.minRel)
  | 21 | 22 | 23 => decide (u.grams ≤ e.minRel)
  | 25 => !(u.phaseIn && u.ssIn)
  | 17 => e.massWaterSwitch && i == e.oxygenIdx
  | _ => false

def splitRow (r : List α) : List α × α := (r.dropLast, r.getLastD (lit 0))

/-- optimisation section for unknown `i` with Jacobian row `r` (coefficients ++ [residual]) -/
def optRows (e : IEnv α) (i : Nat) (u : IUnk α) (r : List α) : List (IRow α) :=
  if e.iterations < e.aqueousOnly then [] else
  let (c, b) := splitRow r
  match u.type with
  | 18 =>
    if !u.phaseIn then []
    else if u.forceEq then []
    else if decide (lit 0 < u.f) && decide (u.moles ≤ lit 0) && decide (u.iteration + e.equiDelay ≤ e.iterations) && !u.addFormula then []
    else if ppBlocked u then []
    else
      let res := if !u.addFormula && !u.dissolveOnly && e.inKode == 1 then lit 1 else lit 0
      [IRow.dense 0 i (c.map fun a => a * e.ppScale) (b * e.ppScale) res]
  | 11 | 13 => [IRow.dense 0 i c b (lit 0)]
  | 25 => if u.ssIn then [IRow.dense 0 i c b (if e.inKode == 1 then lit 1 else lit 0)] else []
  | _ => []

/-- equality section; `oxy` = coefficients of the mass-of-oxygen row (used when the water mass is held constant) -/
def eqRows (e : IEnv α) (i : Nat) (u : IUnk α) (r : List α) (oxy : List α) : List (IRow α) :=
  let (c, b) := splitRow r
  let copy := [IRow.dense 1 i c b (lit 0)]
  match u.type with
  | 11 | 13 | 24 | 25 | 26 => []
  | 18 => if u.forceEq then copy else []
  | 17 => if e.massWaterSwitch && i == e.oxygenIdx then [] else copy
  | 19 => if u.moles ≤ e.minRel then [] else copy
  | 20 => if u.moles ≤ e.minRel then [] else copy
  | 21 | 22 | 23 => if u.grams ≤ e.minRel then [] else copy
  | 16 =>
    if e.massWaterSwitch && i == e.hydrogenIdx then
      [IRow.dense 1 i ((c.zip oxy).map fun p => p.1 - lit 2 * p.2) b (lit 0)]
    else copy
  | _ => copy

/-- inequality rows of a pure phase: `x_i ≤ moles` (do not remove more than is present) and, for dissolve_only,
`−x_i ≤ initial − moles` (do not precipitate more than was dissolved) -/
def ppIneqRows (i : Nat) (u : IUnk α) : List (IRow α) :=
  if !u.phaseIn then []
  else if ppIdle u then []
  else
    let dis := if u.dissolveOnly then [IRow.unit i i (-(lit 1)) (u.initial - u.moles)] else []
    if u.moles ≤ lit 0 then dis
    else if ppBlocked u then []
    else IRow.unit i i (lit 1) u.moles :: dis

/-- sign restriction `delta1[i]`: `−1` = the variable must be ≤ 0 (an absent phase can only precipitate) -/
def ppSign (u : IUnk α) : α :=
  if u.type == 18 && u.phaseIn && !ppIdle u && decide (u.moles ≤ lit 0) then -(lit 1) else lit 0

/-- solid-solution component: `x_i ≤ 0.99·moles − MIN_TOTAL_SS` -/
def ssIneqRows (e : IEnv α) (i : Nat) (u : IUnk α) : List (IRow α) :=
  if u.type == 25 && u.phaseIn && u.ssIn then [IRow.unit i i (lit 1) (lit (99 / 100) * u.moles - e.minTotalSS)] else []

def enum : Nat → List β → List (Nat × β)
  | _, [] => []
  | n, b :: bs => (n, b) :: enum (n + 1) bs

/-- all rows in the order `ineq()` writes them -/
def ineqRows (e : IEnv α) (us : List (IUnk α)) (jac : List (List α)) : List (IRow α) :=
  let ix := enum 0 (us.zip jac)
  let oxy := (splitRow (jac.getD e.oxygenIdx [])).1
  (ix.flatMap fun p => optRows e p.1 p.2.1 p.2.2) ++
  (ix.flatMap fun p => eqRows e p.1 p.2.1 p.2.2 oxy) ++
  (ix.flatMap fun p => if p.2.1.type == 18 then ppIneqRows p.1 p.2.1 else []) ++
  (ix.flatMap fun p => ssIneqRows e p.1 p.2.1)

def ineqZero (e : IEnv α) (us : List (IUnk α)) : List Bool := (enum 0 us).map fun p => zeroCol e p.1 p.2
def ineqSigns (us : List (IUnk α)) : List α := us.map ppSign

end PhreeqcVerif.Assemblage
