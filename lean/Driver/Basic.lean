/-! `pmodel basic`: line-protocol driver (stub — replaced by the owner of this model). -/
namespace Driver.Basic

def run : IO Unit := IO.eprintln "pmodel basic: not implemented"

end Driver.Basic
