"""Seeded generators of column set-ups for C11 (all randomness from the rng passed in).

A case is a plain dict (JSON-able; numbers that the engine parses are kept as decimal *strings* so that the model
can take their exact rational value):
  kind      "transport" | "advection"
  n, shifts, flow ("forward"|"back"|"diffusion_only"), bc [first,last] in {1 constant, 2 closed, 3 flux}
  lengths, disps   lists of decimal strings (len n, or shorter: the engine repeats the last value)
  diffc, timest    decimal strings;  correct_disp bool
  stag      None | {"n":1, "exch":s, "thm":s, "thim":s} | {"n":k, "mix":[...]}   (stagnant layers)
  mcd       None | {"dw":s, "por":s}          implicit None | {"maxmixf": s}
  solids    None | "exchange" | "calcite"      (reactive solids: oracle tier only)
  sols      {cell number (str): {"water": s, "units": "mmol/kgw", "pH": s, "charge": bool, "el": {name: s}}}
"""
from fractions import Fraction

CATIONS = [("Na", 1), ("K", 1), ("Li", 1), ("Ca", 2), ("Mg", 2)]
ANIONS = [("Cl", 1), ("Br", 1)]
ELEMENTS = [c for c, _ in CATIONS] + [a for a, _ in ANIONS]


def dec(rng, lo, hi, sig=3):
    """a decimal string with `sig` significant digits, log-uniform in [lo, hi]"""
    import math
    x = math.exp(rng.uniform(math.log(lo), math.log(hi)))
    s = "%.*e" % (sig - 1, x)
    mant, ex = s.split("e")
    ex = int(ex)
    # plain decimal when short, else exponent form (both forms are parsed by sscanf)
    if -4 <= ex <= 4 and rng.random() < 0.7:
        return _plain(mant, ex)
    return "%se%d" % (mant, ex)


def _plain(mant, ex):
    f = Fraction(mant) * (Fraction(10) ** ex)
    # exact decimal expansion (denominator is a power of 10)
    den = f.denominator
    k = 0
    while den % 10 == 0:
        den //= 10
        k += 1
    if den != 1:       # power of 2 or 5 left: extend
        k += 20
    s = str(int(f * 10 ** k)).rjust(k + 1, "0")
    out = (s[:-k] + "." + s[-k:]) if k else s
    if "." in out:
        out = out.rstrip("0").rstrip(".")
    return out


def frac(s):
    return Fraction(s)


def solution(rng, conc_scale, water_one=True, unbalanced=False):
    """a conservative tracer mixture; charge-balanced by construction unless `unbalanced`"""
    els = {}
    ncat = rng.randint(1, 3)
    cats = rng.sample(CATIONS, ncat)
    tot = Fraction(0)
    for name, z in cats:
        c = dec(rng, 0.02 * conc_scale, 5 * conc_scale, rng.choice([2, 3, 5]))
        els[name] = c
        tot += Fraction(c) * z
    # anions: Br a random share, Cl the rest (exact decimal arithmetic keeps the balance exact)
    share = Fraction(rng.randint(0, 9), 10)
    br = tot * share
    cl = tot - br
    if unbalanced:
        cl = cl * (1 + Fraction(rng.choice([-3, -1, 1, 2]), 1000))
    if br > 0:
        els["Br"] = _fracdec(br)
    if cl > 0:
        els["Cl"] = _fracdec(cl)
    return {"water": "1" if water_one else dec(rng, 0.4, 2.5, 3), "pH": rng.choice(["7", "7", "6.5", "8"]),
            "el": els}


def _fracdec(f):
    """exact decimal string of a fraction whose denominator divides a power of ten"""
    k = 0
    while (f * 10 ** k).denominator != 1 and k < 40:
        k += 1
    v = int(f * 10 ** k)
    s = str(v).rjust(k + 1, "0")
    out = (s[:-k] + "." + s[-k:]) if k else s
    if "." in out:
        out = out.rstrip("0").rstrip(".")
    return out


def column(rng, tier_fast=True, force=None):
    """one random column set-up. `force` may pin some fields (dict)."""
    force = force or {}
    if not force and rng.random() < 0.2:
        return stress_column(rng, tier_fast)
    kind = force.get("kind") or ("advection" if rng.random() < 0.08 else "transport")
    nmax = 40
    n = force.get("n") or rng.choice([1, 1, 2, 2, 3, 4, 5, 6, 8, 10, 12, 15, 20, 25, 30, 40][: (12 if tier_fast else 16)])
    n = min(n, nmax)
    shifts = force.get("shifts") or rng.choice([1, 2, 3, 4, 5, 7, 10, 15, 20, 30][: (7 if tier_fast else 10)])
    case = {"kind": kind, "n": n, "shifts": shifts}
    conc_scale = rng.choice([0.1, 1, 1, 10])
    water_one = rng.random() < 0.7
    unbal = rng.random() < 0.25
    sols = {}
    # initial column: random per cell, or a few blocks
    mode = rng.choice(["random", "blocks", "uniform+pulse"])
    base = solution(rng, conc_scale, water_one, unbal)
    for i in range(1, n + 1):
        if mode == "random":
            sols[str(i)] = solution(rng, conc_scale, water_one, unbal)
        elif mode == "blocks":
            if i == 1 or rng.random() < 0.3:
                base = solution(rng, conc_scale, water_one, unbal)
            sols[str(i)] = base
        else:
            sols[str(i)] = base
    if mode == "uniform+pulse":
        sols[str(rng.randint(1, n))] = solution(rng, conc_scale * 5, water_one, unbal)
    case["sols"] = sols
    if kind == "advection":
        sols["0"] = solution(rng, conc_scale, water_one, unbal)
        return case
    flow = force.get("flow") or rng.choice(["forward", "forward", "back", "diffusion_only", "diffusion_only"])
    case["flow"] = flow
    # boundary conditions
    if flow == "diffusion_only":
        bc = [rng.choice([1, 2, 2, 3]), rng.choice([1, 2, 2, 3])]
    else:
        bc = [rng.choice([1, 3, 3, 2]), rng.choice([1, 3, 3, 2])]     # 2 is turned into 3 by the reader (with a warning)
    case["bc"] = force.get("bc") or bc
    # lengths
    lmode = rng.choice(["one", "equal", "equal", "unequal", "short-list"])
    if lmode == "one":
        lengths = ["1"]
    elif lmode == "equal":
        lengths = [dec(rng, 0.002, 20, rng.choice([1, 2, 3]))] * rng.choice([1, n])
    elif lmode == "unequal":
        lengths = [dec(rng, 0.05, 5, rng.choice([2, 3])) for _ in range(n)]
    else:
        lengths = [dec(rng, 0.05, 5, 2) for _ in range(rng.randint(1, n))]
    case["lengths"] = force.get("lengths") or lengths
    # dispersivities
    dmode = rng.choice(["zero", "equal", "equal", "unequal", "some-zero", "short-list"])
    if dmode == "zero":
        disps = ["0"]
    elif dmode == "equal":
        disps = [dec(rng, 0.001, 5, rng.choice([1, 2, 3]))]
    elif dmode == "unequal":
        disps = [dec(rng, 0.001, 5, 2) for _ in range(n)]
    elif dmode == "some-zero":
        disps = [("0" if rng.random() < 0.4 else dec(rng, 0.001, 5, 2)) for _ in range(n)]
    else:
        disps = [dec(rng, 0.001, 5, 2) for _ in range(rng.randint(1, n))]
    case["disps"] = force.get("disps") or disps
    case["diffc"] = force.get("diffc") or rng.choice(["0", "0.3e-9", "1e-9", dec(rng, 1e-11, 1e-8, 2), dec(rng, 1e-10, 1e-6, 3)])
    case["timest"] = force.get("timest") or rng.choice(["0", "1", "3600", "86400", dec(rng, 1, 1e7, 2), dec(rng, 100, 1e9, 3)])
    case["correct_disp"] = rng.random() < 0.4
    # boundary solutions: for flow the inflow solution is required; otherwise optional (engine copies the end cell)
    if flow == "forward" or rng.random() < 0.6:
        sols["0"] = solution(rng, conc_scale, water_one, unbal)
    if flow == "back" or rng.random() < 0.6:
        sols[str(n + 1)] = solution(rng, conc_scale, water_one, unbal)
    case["stag"] = None
    case["mcd"] = None
    case["implicit"] = None
    case["solids"] = None
    return case


def stress_column(rng, tier_fast=True):
    """end-cell stress: unequal lengths with a short first/last cell, a constant boundary at one end only, a larger
    dispersivity in an end cell, and a time step that puts the largest mixing factor close to the stability limit
    (1.5*maxmix just below / above an integer, few sub-mixes), with a strong concentration contrast at that end."""
    n = rng.choice([1, 2, 3, 4, 5, 6, 8, 10])
    shifts = rng.choice([1, 1, 2, 3, 5])
    end = rng.choice(["first", "last"])
    flow = rng.choice(["diffusion_only", "diffusion_only", "forward", "back"])
    other = rng.choice([2, 3])
    bc = [1, other] if end == "first" else [other, 1]
    L = Fraction(dec(rng, 0.01, 10, rng.choice([1, 2])))
    short = Fraction(rng.choice([50, 60, 70, 75, 80, 85, 90, 95, 120]), 100)
    lengths = [L] * n
    lengths[0 if end == "first" else n - 1] = L * short
    if rng.random() < 0.3 and n > 2:
        lengths[rng.randrange(n)] = L * Fraction(rng.choice([60, 150, 200]), 100)
    disps = [Fraction(0)] * n
    if flow != "diffusion_only":
        a = Fraction(dec(rng, 0.001, 1, 2)) * L
        dm = rng.choice(["zero", "equal", "end-large"])
        if dm != "zero":
            disps = [a] * n
        if dm == "end-large":
            disps[0 if end == "first" else n - 1] = a * rng.choice([2, 5, 10])
    diffc = Fraction(rng.choice(["1e-9", "0.3e-9", dec(rng, 1e-11, 1e-7, 2)]))
    # largest factor is (about) the boundary cell's: 2*D*t/Le^2 (+ disp/Le with flow) + interior part
    Le = lengths[0 if end == "first" else n - 1]
    target = Fraction(rng.choice([55, 60, 64, 66, 68, 90, 110, 128, 132, 135, 190, 199, 201, 260, 330]), 100)
    # interior sums are about half the end cell's: aim the *interior* maximum at `target`/1.5 in half the cases
    if rng.random() < 0.5:
        t = target / Fraction(3, 2) * L * L / (2 * diffc)
    else:
        t = target / Fraction(3, 2) * Le * Le / (2 * diffc) / 2
    timest = "%.3e" % float(t)
    case = {"kind": "transport", "n": n, "shifts": shifts, "flow": flow, "bc": bc,
            "lengths": [_fracdec(x) for x in lengths], "disps": [_fracdec(x) for x in disps],
            "diffc": "%.3e" % float(diffc), "timest": timest, "correct_disp": rng.random() < 0.3,
            "stag": None, "mcd": None, "implicit": None, "solids": None, "gen": "stress"}
    cs = rng.choice([0.1, 1, 10])
    sols = {}
    base = solution(rng, cs * 0.05, True, False)
    for i in range(1, n + 1):
        sols[str(i)] = base if rng.random() < 0.6 else solution(rng, cs, True, False)
    peak = solution(rng, cs * 20, True, False)
    # contrast at the stressed end: the end cell against its neighbour / the constant boundary solution
    e = 1 if end == "first" else n
    b = 0 if end == "first" else n + 1
    o = n + 1 if end == "first" else 0
    if rng.random() < 0.5:
        sols[str(e)] = base
        sols[str(b)] = peak
        if n > 1:
            sols[str(e + (1 if end == "first" else -1))] = peak
    else:
        sols[str(e)] = peak
        sols[str(b)] = base
    if flow == "forward":
        sols.setdefault("0", solution(rng, cs, True, False))
    if flow == "back":
        sols.setdefault(str(n + 1), solution(rng, cs, True, False))
    if rng.random() < 0.5:
        sols.setdefault(str(o), solution(rng, cs, True, False))
    case["sols"] = sols
    return case


def limit_mixes(case, nmix_exact, max_runs=4000):
    """True when the run is cheap enough: cells * shifts * (nmix+1) speciations"""
    return case["n"] * case["shifts"] * (nmix_exact + 1) <= max_runs


def variant(rng, case):
    """turn a plain column into one of the oracle-only configurations (stagnant / multi_d / implicit / solids)"""
    import copy
    c = copy.deepcopy(case)
    n = c["n"]
    r = rng.random()
    # multicomponent diffusion sub-steps with the fastest species (H+, ~1e-8 m2/s): 2.25 * 2 D dt / L^2 mixruns per shift;
    # set-ups that would need an astronomic number of mixruns are not turned into multi_d / implicit cases
    lmin = min(Fraction(x) for x in c["lengths"])
    mcd_runs = 1 + 4.5 * 1e-8 * float(Fraction(c["timest"])) / float(lmin * lmin)
    if r < 0.4 and n * c["shifts"] * mcd_runs > 40000:
        r = 0.4 + 0.6 * rng.random()
    if r >= 0.86:
        return interlayer_variant(rng)
    if 0.74 <= r < 0.86:
        return mcd_stagnant_variant(rng)
    if r < 0.25:
        c["mcd"] = {"dw": rng.choice(["1e-9", "0.3e-9", "2e-9"]), "por": rng.choice(["0.3", "1", "0.1"])}
        c["variant"] = "mcd"
        if rng.random() < 0.4:
            # non-uniform porosity (tortuosity factor por^n differs per cell)
            c["pors"] = [rng.choice(["0.1", "0.2", "0.3", "0.45", "0.6"]) for _ in range(n)]
            c["variant"] = "mcd_pors"
    elif r < 0.4:
        c["mcd"] = {"dw": "1e-9", "por": rng.choice(["0.3", "1"])}
        c["implicit"] = {"maxmixf": rng.choice(["1", "3", "10"])}
        c["variant"] = "implicit"
    elif r < 0.65:
        # one stagnant layer with exchange factor: stagnant solutions n+2 .. 2n+1. The engine's mobile/immobile
        # exchange conserves mass when the water masses are in the ratio of the porosities: mobile water 1 kg,
        # immobile water thim/thm kg.
        thm, thim, wim = rng.choice([("0.2", "0.1", "0.5"), ("0.4", "0.1", "0.25"), ("0.3", "0.15", "0.5"), ("0.25", "0.05", "0.2")])
        c["stag"] = {"n": 1, "exch": dec(rng, 1e-6, 1e-3, 2), "thm": thm, "thim": thim}
        for k in c["sols"]:
            c["sols"][k]["water"] = "1"
        for i in range(1, n + 1):
            if rng.random() < 0.85:
                so = solution(rng, 1, True, False)
                so["water"] = wim
                c["sols"][str(i + 1 + n)] = so
        c["variant"] = "stagnant"
    elif r < 0.8:
        # stagnant cells coupled by explicit MIX definitions (no exchange factor): pairwise, mass-conserving fractions
        # mobile i: {i: 1-a, k: b}, immobile k: {i: a, k: 1-b}; concentrations stay convex when a*W_m = b*W_im
        mix = {}
        for k in c["sols"]:
            c["sols"][k]["water"] = "1"
        for i in range(1, n + 1):
            if rng.random() < 0.8:
                a = Fraction(rng.choice(["0.01", "0.05", "0.1", "0.2", "0.25", "0.4"]))
                if rng.random() < 0.7:
                    b, wim = a, "1"
                else:
                    b, wim = 2 * a, "0.5"
                mix[str(i)] = [_fracdec(1 - a), _fracdec(b), _fracdec(1 - b), _fracdec(a)]
                so = solution(rng, 1, True, False)
                so["water"] = wim
                c["sols"][str(i + 1 + n)] = so
        c["stag"] = {"n": 1, "mix": mix}
        c["variant"] = "stagnant_mix"
    else:
        c["solids"] = rng.choice(["exchange", "calcite"])
        c["variant"] = c["solids"]
        if c["solids"] == "exchange" and rng.random() < 0.6:
            # non-uniform exchanger amounts, each equilibrated with its own cell
            c["exch"] = {str(i): rng.choice(["0.0005", "0.001", "0.002", "0.005", "0.02"]) for i in range(1, n + 1)}
            c["variant"] = "exchange_nonuniform"
        if rng.random() < 0.4:
            # ADVECTION keyword with reactive solids
            c["kind"] = "advection"
            c["variant"] = "advection_" + c["solids"]
            c["sols"] = {k: v for k, v in c["sols"].items() if int(k) <= n}
            c["sols"].setdefault("0", solution(rng, 1, True, False))
    return c


def interlayer_variant(rng, partial=None):
    """closed (mostly) diffusion-only column with multicomponent + interlayer diffusion and an exchanger X whose amount
    differs between neighbouring cells (rc1 != rc2 in find_J); `partial`: some cells without exchanger (they get the
    engine's automatic 2e-10 mol X)"""
    n = rng.choice([2, 3, 4, 5, 6, 8])
    shifts = rng.choice([1, 2, 3, 5, 6])
    L = rng.choice(["0.005", "0.01", "0.02", "0.05"])
    timest = rng.choice(["600", "3600", "7200", "86400"])
    while 4.5e-8 * float(timest) / float(L) ** 2 * n * shifts > 20000:
        timest = _fracdec(Fraction(timest) / 4)
    cs = rng.choice([1, 1, 10])
    sols = {}
    base = solution(rng, cs, True, False)
    for i in range(1, n + 1):
        if rng.random() < 0.4:
            base = solution(rng, cs, True, False)
        sols[str(i)] = base
    amounts = ["0.02", "0.05", "0.1", "0.2", "0.5"]
    exch = {}
    a = rng.choice(amounts)
    for i in range(1, n + 1):
        if rng.random() < 0.5:
            a = rng.choice(amounts)
        exch[str(i)] = a
    if len(set(exch.values())) == 1 and n > 1:
        exch[str(rng.randint(1, n))] = rng.choice([x for x in amounts if x != a])
    if partial is None:
        partial = rng.random() < 0.15
    if partial and n > 2:
        k = rng.randint(1, n - 1)
        for i in (range(1, k + 1) if rng.random() < 0.5 else range(n - k + 1, n + 1)):
            exch.pop(str(i), None)
    flow, bc = "diffusion_only", [2, 2]
    if rng.random() < 0.2:
        flow, bc = rng.choice(["forward", "back"]), [3, 3]
        sols["0"] = solution(rng, cs, True, False)
        sols[str(n + 1)] = solution(rng, cs, True, False)
    return {"kind": "transport", "n": n, "shifts": shifts, "flow": flow, "bc": bc, "lengths": [L], "disps": ["0"],
            "diffc": "0", "timest": timest, "correct_disp": False, "stag": None,
            "mcd": {"dw": rng.choice(["1e-9", "0.5e-9"]), "por": rng.choice(["0.3", "0.2"]), "lim": rng.choice(["0.05", "0.0"])},
            "implicit": None, "solids": "exchange", "exch": exch,
            "interlayer": {"por": rng.choice(["0.09", "0.05", "0.15"]), "lim": "0.01", "tort": rng.choice(["150", "50", "300"])},
            "variant": "interlayer_partial" if len(exch) < n else "interlayer", "sols": sols}


def mcd_stagnant_variant(rng, form=None):
    """explicit multicomponent diffusion with a stagnant layer (exchange-factor form or explicit MIX pairs), mostly
    closed diffusion-only, with a concentration contrast between mobile and stagnant cells; the inventory is taken
    over mobile + stagnant cells"""
    n = rng.choice([2, 3, 4, 5, 6, 8])
    shifts = rng.choice([1, 2, 3, 5, 6])
    L = rng.choice(["0.02", "0.05", "0.1", "0.2"])
    timest = rng.choice(["600", "3600", "7200", "86400"])
    while 4.5e-8 * float(timest) / float(L) ** 2 * n * shifts > 20000:
        timest = _fracdec(Fraction(timest) / 4)
    cs = rng.choice([1, 1, 10])
    form = form or rng.choice(["exch", "mix"])
    thm, thim, wim = rng.choice([("0.2", "0.1", "0.5"), ("0.4", "0.1", "0.25"), ("0.3", "0.15", "0.5"), ("0.3", "0.3", "1")])
    sols = {}
    lo = solution(rng, cs * 0.1, True, False)
    hi = solution(rng, cs * 5, True, False)
    mob_hi = rng.random() < 0.5
    for i in range(1, n + 1):
        sols[str(i)] = dict(hi if mob_hi else lo) if rng.random() < 0.7 else solution(rng, cs, True, False)
    stag = {"n": 1}
    mix = {}
    for i in range(1, n + 1):
        if rng.random() < 0.85 or i == 1:
            so = dict(lo if mob_hi else hi) if rng.random() < 0.7 else solution(rng, cs, True, False)
            so["water"] = wim
            sols[str(i + 1 + n)] = so
            if form == "mix":
                a = Fraction(rng.choice(["0.01", "0.05", "0.1", "0.2"]))
                b = a / Fraction(wim)
                mix[str(i)] = [_fracdec(1 - a), _fracdec(b), _fracdec(1 - b), _fracdec(a)]
    if form == "exch":
        stag.update({"exch": dec(rng, 1e-6, 1e-4, 2), "thm": thm, "thim": thim})
    else:
        stag["mix"] = mix
    flow, bc = "diffusion_only", [2, 2]
    if rng.random() < 0.25:
        flow, bc = rng.choice(["forward", "back"]), [3, 3]
        sols["0"] = solution(rng, cs, True, False)
        sols[str(n + 1)] = solution(rng, cs, True, False)
    c = {"kind": "transport", "n": n, "shifts": shifts, "flow": flow, "bc": bc, "lengths": [L], "disps": ["0"],
         "diffc": "0.3e-9", "timest": timest, "correct_disp": False, "stag": stag,
         "mcd": {"dw": rng.choice(["1e-9", "0.5e-9"]), "por": thm}, "implicit": None, "solids": None,
         "variant": "mcd_stagnant_" + form, "sols": sols}
    if rng.random() < 0.3:
        c["pors"] = [thm] * n + [thim] * n
    return c


def render(case, headings=None):
    """PHREEQC input text of a case; USER_PUNCH calls back into the harness and punches per-cell inventories"""
    L = []
    L.append("TITLE c11 generated column")
    for k in sorted(case["sols"], key=int):
        s = case["sols"][k]
        L.append("SOLUTION %s" % k)
        L.append(" units mmol/kgw")
        L.append(" temp 25")
        L.append(" pH %s" % s["pH"])
        L.append(" water %s" % s["water"])
        for e in ELEMENTS:
            if e in s["el"]:
                L.append(" %s %s" % (e, s["el"][e]))
        if case.get("solids") == "calcite":
            L.append(" C 1 CO2(g) -3.0")
    n = case["n"]
    if case.get("solids") == "exchange":
        if case.get("exch"):
            # per-cell exchanger amounts (cells not listed have no exchanger)
            for i in sorted(case["exch"], key=int):
                L += ["EXCHANGE %s" % i, " X %s" % case["exch"][i], " -equilibrate %s" % i]
        else:
            L.append("EXCHANGE 1-%d" % n)
            L.append(" X 0.001")
            L.append(" -equilibrate 1")
    if case.get("solids") == "calcite":
        L.append("EQUILIBRIUM_PHASES 1-%d" % n)
        L.append(" Calcite 0 0.001")
    if case.get("stag") and "mix" in case["stag"]:
        for i in sorted(case["stag"]["mix"], key=int):
            ms, mf, ims, imf = case["stag"]["mix"][i]
            k = int(i) + 1 + n
            L += ["MIX %s" % i, " %s %s" % (i, ms), " %d %s" % (k, mf), "MIX %d" % k, " %s %s" % (i, imf), " %d %s" % (k, ims)]
    L.append("SELECTED_OUTPUT 1")
    L.append(" -reset false")
    L.append(" -high_precision true")
    L.append("USER_PUNCH 1")
    heads = ["cell", "step", "state", "water", "H", "O", "cb"] + ["m_" + e for e in ELEMENTS] + ["c_" + e for e in ELEMENTS]
    extra = []
    if case.get("solids") == "exchange":
        heads += ["x_" + e for e in ELEMENTS]
    if case.get("solids") == "calcite":
        heads += ["m_C", "s_calcite"]
    L.append(" -headings " + " ".join(heads))
    L.append(' 10 s = CALLBACK(CELL_NO, STEP_NO, "c11")')
    L.append(' 20 PUNCH CELL_NO, STEP_NO, s, TOT("water"), TOTMOLE("H"), TOTMOLE("O"), CHARGE_BALANCE')
    ln = 30
    for e in ELEMENTS:
        L.append(' %d PUNCH TOTMOLE("%s")' % (ln, e))
        ln += 10
    for e in ELEMENTS:
        L.append(' %d PUNCH TOT("%s")' % (ln, e))
        ln += 10
    if case.get("solids") == "exchange":
        for e in ELEMENTS:
            L.append(' %d PUNCH SYS("%s") - TOTMOLE("%s")' % (ln, e, e))
            ln += 10
    if case.get("solids") == "calcite":
        L.append(' %d PUNCH TOTMOLE("C"), EQUI("Calcite")' % ln)
    L.append("END")
    if case["kind"] == "advection":
        L.append("ADVECTION")
        L.append(" -cells %d" % n)
        L.append(" -shifts %d" % case["shifts"])
        L.append(" -punch_frequency 1")
        L.append("END")
        return "\n".join(L) + "\n"
    L.append("TRANSPORT")
    L.append(" -cells %d" % n)
    L.append(" -shifts %d" % case["shifts"])
    L.append(" -flow_direction %s" % case["flow"])
    bcn = {1: "constant", 2: "closed", 3: "flux"}
    L.append(" -boundary_conditions %s %s" % (bcn[case["bc"][0]], bcn[case["bc"][1]]))
    L.append(" -lengths " + " ".join(case["lengths"]))
    L.append(" -dispersivities " + " ".join(case["disps"]))
    L.append(" -diffusion_coefficient %s" % case["diffc"])
    L.append(" -time_step %s" % case["timest"])
    L.append(" -correct_disp %s" % ("true" if case["correct_disp"] else "false"))
    L.append(" -punch_frequency 1")
    L.append(" -print_frequency 100000")
    L.append(" -warnings true")
    if case.get("stag"):
        st = case["stag"]
        if "exch" in st:
            L.append(" -stagnant %d %s %s %s" % (st["n"], st["exch"], st["thm"], st["thim"]))
        else:
            L.append(" -stagnant %d" % st["n"])
    if case.get("mcd"):
        L.append(" -multi_d true %s %s %s 1.0" % (case["mcd"]["dw"], case["mcd"]["por"], case["mcd"].get("lim", "0.0")))
        if case.get("pors"):
            L.append(" -porosities " + " ".join(case["pors"]))
    if case.get("interlayer"):
        il = case["interlayer"]
        L.append(" -interlayer_d true %s %s %s" % (il["por"], il["lim"], il["tort"]))
    if case.get("implicit"):
        L.append(" -implicit true %s" % case["implicit"]["maxmixf"])
    L.append("END")
    return "\n".join(L) + "\n"


def _nacl(c):
    return {"water": "1", "pH": "7", "el": {"Na": c, "Cl": c}}


def corpus():
    """minimised past findings (replayed first on every run).
    [0] stale `dav` in init_mix (fixed by /repo 02a99847): a zero dispersivity after two non-zero ones made
        m1[2] = 0.2 but m[3] = 1/15: 13.3 % of every solute vanished in one shift.
    [1] the same with backward flow and the zero in the middle.
    [2] speciation residual accumulating over 651 speciations per cell (known finding)."""
    base = {"kind": "transport", "n": 3, "shifts": 2, "flow": "forward", "bc": [3, 3], "lengths": ["1"],
            "disps": ["0.1", "0.1", "0"], "diffc": "0", "timest": "0", "correct_disp": False, "stag": None, "mcd": None,
            "implicit": None, "solids": None,
            "sols": {"0": _nacl("0.001"), "1": _nacl("1"), "2": _nacl("0.001"), "3": _nacl("0.001")}}
    second = dict(base, n=4, flow="back", disps=["0.2", "0", "0.1", "0.3"], lengths=["0.5"], diffc="1e-9", timest="1000",
                  sols={"1": _nacl("0.001"), "2": _nacl("0.5"), "3": _nacl("0.001"), "4": _nacl("2"), "5": _nacl("0.01")})
    # [2] known finding `speciation-residual-accumulates`: 650 mixruns in one shift of an explicit multi_d column with
    #     flux boundaries: Ca inventory +1.4e-9 relative (no negative-concentration balancing involved)
    third = {"kind": "transport", "n": 4, "shifts": 1, "sols": {"1": {"water": "1", "pH": "7", "el": {"Mg": "0.34339", "Br": "0.618102", "Cl": "0.068678"}}, "2": {"water": "1", "pH": "7", "el": {"Mg": "5.3", "Br": "8.48", "Cl": "2.12"}}, "3": {"water": "1", "pH": "7", "el": {"Mg": "0.34339", "Br": "0.618102", "Cl": "0.068678"}}, "4": {"water": "1", "pH": "7", "el": {"Mg": "0.34339", "Br": "0.618102", "Cl": "0.068678"}}, "0": {"water": "1", "pH": "7", "el": {"Li": "2.2448e0", "Br": "0.22448", "Cl": "2.02032"}}, "5": {"water": "1", "pH": "8", "el": {"Na": "3.41e-1", "Mg": "0.992", "Ca": "0.17463", "Br": "2.139408", "Cl": "0.534852"}}}, "flow": "back", "bc": [3, 3], "lengths": ["1.27e-2", "1.27e-2", "1.27e-2", "1.27e-2"], "disps": ["0.057", "0", "0", "0.0079"], "diffc": "0", "timest": "7.5e6", "correct_disp": True, "stag": None, "mcd": {"dw": "1e-9", "por": "1"}, "implicit": None, "solids": None, "variant": "mcd"}
    # [3] known finding `implicit-mcd-closed-inventory-drift`: closed implicit multicomponent diffusion; the negative-mole
    #     guard of diffuse_implicit creates ~1e-13 mol per cell of elements absent from a cell and lets inventories drift
    def _s(el):
        return {"water": "1", "pH": "7", "el": el}
    fourth = {"kind": "transport", "n": 6, "shifts": 1, "flow": "diffusion_only", "bc": [2, 2], "lengths": ["1"],
              "disps": ["0"], "diffc": "1.7e-11", "timest": "3.9e3", "correct_disp": False, "stag": None,
              "mcd": {"dw": "1e-9", "por": "0.3"}, "implicit": {"maxmixf": "1"}, "solids": None, "variant": "implicit",
              "sols": {"1": _s({"Ca": "0.05", "Cl": "0.1"}), "2": _s({"Ca": "0.02", "Cl": "0.04"}),
                       "3": _s({"K": "0.3", "Br": "0.3"}), "4": _s({"Ca": "0.07", "Cl": "0.14"}),
                       "5": _s({"Li": "0.1", "Cl": "0.1"}), "6": _s({"Ca": "0.0091", "Cl": "0.0182"})}}
    # [4] seeded change C11d (rc2 -> rc1 in find_J's receiving-cell block): interlayer diffusion between cells with
    #     different exchanger amounts; the unchanged code conserves Na, K, Ca to 1e-13
    A = {"water": "1", "pH": "7", "el": {"Na": "10", "Cl": "10", "K": "1", "Br": "1"}}
    B = {"water": "1", "pH": "7", "el": {"Na": "1", "Cl": "3", "Ca": "1"}}
    fifth = {"kind": "transport", "n": 6, "shifts": 5, "flow": "diffusion_only", "bc": [2, 2], "lengths": ["0.01"], "disps": ["0"],
             "diffc": "0", "timest": "3600", "correct_disp": False, "stag": None,
             "mcd": {"dw": "1e-9", "por": "0.3", "lim": "0.05"}, "implicit": None, "solids": "exchange", "variant": "interlayer",
             "interlayer": {"por": "0.09", "lim": "0.01", "tort": "150"},
             "exch": {"1": "0.05", "2": "0.05", "3": "0.2", "4": "0.2", "5": "0.2", "6": "0.2"},
             "sols": {"1": A, "2": A, "3": B, "4": B, "5": B, "6": B}}
    # [5] exchanger only in cells 3-6 (cells 1-2 get the automatic 2e-10 mol X): before the repair of find_J the exchange
    #     species of an interlayer-off pair diffused as pore-water solutes and K, Ca were created (K 0.0020 -> 0.0189 mol);
    #     fixed by /repo 277d399e: must conserve
    sixth = dict(fifth, exch={"3": "0.2", "4": "0.2", "5": "0.2", "6": "0.2"}, variant="interlayer_partial")
    # [6] known finding `mcd-negative-concentration-guard-adds-mass`: strongly different exchanger amounts in neighbouring
    #     cells; the explicit interlayer step overshoots and the engine refills the negative totals (announced)
    C = {"water": "1", "pH": "7", "el": {"K": "5", "Mg": "1", "Cl": "7"}}
    seventh = dict(fifth, n=8, shifts=1, lengths=["0.002"], mcd={"dw": "1e-9", "por": "0.2", "lim": "0.05"},
                   interlayer={"por": "0.09", "lim": "0.01", "tort": "10"},
                   exch={"1": "0.05", "2": "0.05", "3": "0.2", "4": "0.02", "5": "0.5", "6": "0.2", "7": "0.2", "8": "0.2"},
                   sols={"1": A, "2": A, "3": C, "4": C, "5": B, "6": B, "7": C, "8": B})
    # [7] seeded change C11e (multi_D receiving-cell guard `jcell != count_cells + 1` -> `jcell <= count_cells`): explicit
    #     multicomponent diffusion between mobile and stagnant cells; inventory over mobile + stagnant cells
    K1 = {"water": "1", "pH": "7", "el": {"K": "20", "Br": "20", "Na": "2", "Cl": "2"}}
    N1 = {"water": "1", "pH": "7", "el": {"Na": "5", "Cl": "5"}}
    S1 = {"water": "0.5", "pH": "7", "el": {"Na": "0.5", "Cl": "0.5"}}
    eighth = {"kind": "transport", "n": 4, "shifts": 6, "flow": "diffusion_only", "bc": [2, 2], "lengths": ["0.05"], "disps": ["0"],
              "diffc": "1.0e-9", "timest": "7200", "correct_disp": False,
              "stag": {"n": 1, "exch": "6.8e-6", "thm": "0.3", "thim": "0.15"},
              "mcd": {"dw": "1.0e-9", "por": "0.3", "lim": "0.05"}, "implicit": None, "solids": None, "variant": "mcd_stagnant_exch",
              "sols": {"1": K1, "2": N1, "3": N1, "4": N1, "6": S1, "7": S1, "8": S1, "9": S1}}
    # which known finding a corpus case is allowed to reproduce (all other corpus cases must pass strictly)
    third["expect"] = "speciation-residual-accumulates"
    fourth["expect"] = "implicit-mcd-closed-inventory-drift"
    seventh["expect"] = "mcd-negative-concentration-guard-adds-mass"
    return [base, second, third, fourth, fifth, sixth, seventh, eighth]


HEADS = ["cell", "step", "state", "water", "H", "O", "cb"] + ["m_" + e for e in ELEMENTS] + ["c_" + e for e in ELEMENTS]
