// C17 harness: runs BASIC programs on the real engine under the four hosts (USER_PUNCH, USER_PRINT, RATES,
// CALCULATE_VALUES). Every case runs in a forked child of a parent that has the database loaded, so a signal
// (SIGSEGV, SIGABRT, SIGALRM=timeout) is a *result*, not the end of the batch.
//
// stdin : one case per line   "<id> <host> <hex of program text, lines separated by \n>"
//         host = punch | print | rates | calc | punchhp (USER_PUNCH with -high_precision true)
//              | multi: programs "P1\n@@\nP2…" as USER_PUNCH 1..k + SELECTED_OUTPUT 1..k in ONE simulation (same interpreter)
//              | hist: program text "A\n@@\nB": simulation 1 defines USER_PUNCH A and SOLUTION 1 (row 1), simulation 2
//                redefines USER_PUNCH as B and defines SOLUTION 2 (row 2); rows are separated by the item "/"
// stdout: one line per case   "R <id> <host> <status> <items...> | <hex of error text>"
//         status = ok | err | exc | sig<N> | timeout ; items: D<16 hex> (double) S<hex> (string) T<hex> (print text)
// argv[1] = database file (default /repo/database/phreeqc.dat), argv[2] = per-case timeout seconds (default 10)
#ifndef CPPUNIT
#define CPPUNIT 1
#endif
#include "IPhreeqc.hpp"
#include "Phreeqc.h"
#include "cxxKinetics.h"
#include "Utils.h"
#include "hx.hpp"
#include "IPhreeqc.h"
// own access shim (Phreeqc.h / IPhreeqc.hpp declare `friend class TestIPhreeqc`)
class TestIPhreeqc {
public:
  static Phreeqc* engine(IPhreeqc* p) { return p->PhreeqcPtr; }
  // one evaluation of the rate program of KINETICS 1, component 0, through the host function itself
  static int rate_once(IPhreeqc* p, double& out) {
    Phreeqc* e = p->PhreeqcPtr;
    cxxKinetics* k = Utilities::Rxn_find(e->Rxn_kinetics_map, 1);
    if (!k || k->Get_kinetics_comps().empty()) return -1;
    k->Get_kinetics_comps()[0].Set_moles(0.0);
    e->calc_kinetic_reaction(k, 1.0);
    out = k->Get_kinetics_comps()[0].Get_moles();
    return 0;
  }
};
#include <unistd.h>
#include <sys/wait.h>
#include <signal.h>
#include <cmath>

class BasicIPhreeqc : public IPhreeqc {
public:
  bool in_user_print = false;
  std::string print_text;
  std::vector<std::string> punches;   // in call order, D.. or S..
  bool in_warning = false;
  // warnings ("Zero divide in BASIC line ...") are echoed into the output stream: not part of the PRINT text
  virtual void warning_msg(const char* s) { in_warning = true; IPhreeqc::warning_msg(s); in_warning = false; }
  virtual void output_msg(const char* s) {
    if (in_warning) { IPhreeqc::output_msg(s); return; }
    std::string t(s ? s : "");
    if (t.find("User print") != std::string::npos && t.find("-----") != std::string::npos) { in_user_print = true; }
    else if (in_user_print && t.compare(0, 10, "----------") == 0) in_user_print = false;
    else if (in_user_print) print_text += t;
    IPhreeqc::output_msg(s);
  }
  virtual void fpunchf_end_row(const char* fmt) { punches.push_back("/"); IPhreeqc::fpunchf_end_row(fmt); }
  virtual void fpunchf(const char* name, const char* fmt, double d) { punches.push_back("D" + hx::hexd(d)); IPhreeqc::fpunchf(name, fmt, d); }
  virtual void fpunchf(const char* name, const char* fmt, char* s) { punches.push_back("S" + hx::hex(s ? s : "")); IPhreeqc::fpunchf(name, fmt, s); }
};

static std::string build_input(const std::string& host, const std::string& prog) {
  std::string in;
  if (host == "punch" || host == "punchhp") {
    in = "SOLUTION 1\nSELECTED_OUTPUT 1\n -reset false\n";
    if (host == "punchhp") in += " -high_precision true\n";
    in += "USER_PUNCH 1\n" + prog + "\nEND\n";
  } else if (host == "multi") {
    // k programs "P1\n@@\nP2..." as USER_PUNCH 1..k with SELECTED_OUTPUT 1..k, all run by the one interpreter in the same
    // calculation (one row each, in user-number order)
    std::string rest = prog; int u = 1;
    in = "SOLUTION 1\n";
    for (;;) {
      size_t k = rest.find("\n@@\n");
      std::string one = k == std::string::npos ? rest : rest.substr(0, k);
      in += "SELECTED_OUTPUT " + std::to_string(u) + "\n -reset false\nUSER_PUNCH " + std::to_string(u) + "\n" + one + "\n";
      if (k == std::string::npos) break;
      rest = rest.substr(k + 4); ++u;
    }
    in += "END\n";
  } else if (host == "hist") {
    size_t k = prog.find("\n@@\n");
    std::string a = k == std::string::npos ? prog : prog.substr(0, k), b = k == std::string::npos ? prog : prog.substr(k + 4);
    in = "SOLUTION 1\nSELECTED_OUTPUT 1\n -reset false\nUSER_PUNCH 1\n" + a + "\nEND\nUSER_PUNCH 1\n" + b + "\nSOLUTION 2\nEND\n";
  } else if (host == "print") {
    in = "SOLUTION 1\nUSER_PRINT\n" + prog + "\nEND\n";
  } else if (host == "rates") {
    in = "RATES\n r1\n -start\n" + prog + "\n -end\nKINETICS 1\n r1\n -formula NaCl 1\n -m 1\n -m0 1\nEND\n";
  } else if (host == "calc") {
    in = "CALCULATE_VALUES\n cv1\n -start\n" + prog + "\n -end\nSOLUTION 1\nSELECTED_OUTPUT 1\n -reset false\n -calculate_values cv1\nEND\n";
  }
  return in;
}

static std::string show(const VAR& v) {
  switch (v.type) {
    case TT_EMPTY: return "E";
    case TT_ERROR: return "X" + std::to_string((int)v.vresult);
    case TT_LONG: return "L" + std::to_string(v.lVal);
    case TT_DOUBLE: return "D" + hx::hexd(v.dVal);
    case TT_STRING: return "S" + hx::hex(v.sVal ? v.sVal : "");
  }
  return "?";
}

static std::string run_case(BasicIPhreeqc* p, const std::string& host, const std::string& prog) {
  std::ostringstream o;
  int nerr = 0;
  bool exc = false;
  std::string input = build_input(host, prog);
  if (host == "print") p->SetOutputStringOn(true);   // print_all is skipped when no output sink is on
  try { nerr = p->RunString(input.c_str()); } catch (...) { exc = true; }
  std::vector<std::string> items;
  std::string rate_exc;
  if (host == "punch" || host == "punchhp") {
    // values as delivered by the API: GetSelectedOutputValue, row 1.. (row 0 = headings)
    int nr = p->GetSelectedOutputRowCount(), nc = p->GetSelectedOutputColumnCount();
    for (int r = 1; r < nr; ++r)
      for (int c = 0; c < nc; ++c) { VAR v; VarInit(&v); p->GetSelectedOutputValue(r, c, &v); items.push_back(show(v)); VarClear(&v); }
    // the event stream must say the same as the table (one row): otherwise report both
    std::vector<std::string> ev; for (auto& x : p->punches) if (x != "/") ev.push_back(x);
    if (!exc && nerr == 0 && items != ev) { items.push_back("!events"); for (auto& s : ev) items.push_back(s); }
    if (nerr != 0 || exc) items = ev;
  } else if (host == "hist" || host == "multi") {
    // the PUNCH call sequence per row (event stream; "/" between rows = fpunchf_end_row)
    items = p->punches;
  } else if (host == "print") {
    items.push_back("T" + hx::hex(p->print_text));
  } else if (host == "rates") {
    if (!exc && nerr == 0) {
      double v = 0;
      try { if (TestIPhreeqc::rate_once(p, v) != 0) { items.push_back("!nokinetics"); nerr = -1; } else items.push_back("D" + hx::hexd(v)); }
      catch (const PhreeqcStop&) { nerr = 1; }
      catch (const IPhreeqcStop&) { nerr = 1; }     // error_msg(..., STOP): what RunString itself catches
      catch (const std::exception& e) { nerr = 1; rate_exc = e.what(); }   // RunString turns these into an error return too
      catch (...) { exc = true; }
    }
  } else if (host == "calc") {
    int nr = p->GetSelectedOutputRowCount(), nc = p->GetSelectedOutputColumnCount();
    for (int r = 1; r < nr; ++r)
      for (int c = 0; c < nc; ++c) { VAR v; VarInit(&v); p->GetSelectedOutputValue(r, c, &v); items.push_back(show(v)); VarClear(&v); }
  }
  o << (exc ? "exc" : nerr ? "err" : "ok");
  for (auto& s : items) o << " " << s;
  std::string errs = p->GetErrorString();
  if (host == "rates" && nerr == 1 && errs.empty()) errs = rate_exc.empty() ? "(PhreeqcStop in calc_kinetic_reaction)" : "std::exception: " + rate_exc;
  o << " | " << hx::hex(errs) << " | " << hx::hex(p->GetWarningString());
  return o.str();
}

int main(int argc, char** argv) {
  std::string db = argc > 1 ? argv[1] : "/repo/database/phreeqc.dat";
  int tmo = argc > 2 ? atoi(argv[2]) : 10;
  BasicIPhreeqc* p = new BasicIPhreeqc();
  if (p->LoadDatabase(db.c_str()) != 0) { std::cout << "FATAL cannot load " << db << "\n"; return 3; }
  p->SetOutputFileOn(false); p->SetErrorFileOn(false); p->SetLogFileOn(false); p->SetSelectedOutputFileOn(false);
  p->SetDumpFileOn(false); p->SetErrorStringOn(true); p->SetOutputStringOn(false);
  std::string line;
  while (std::getline(std::cin, line)) {
    std::vector<std::string> w = hx::words(line);
    if (w.size() < 3) continue;
    std::string prog = hx::unhex(w[2]);
    int fd[2];
    if (pipe(fd) != 0) { std::cout << "R " << w[0] << " " << w[1] << " pipefail\n"; continue; }
    std::cout.flush();
    pid_t pid = fork();
    if (pid == 0) {
      close(fd[0]);
      alarm(tmo);
      std::string r = run_case(p, w[1], prog);
      size_t off = 0;
      while (off < r.size()) { ssize_t n = write(fd[1], r.data() + off, r.size() - off); if (n <= 0) break; off += n; }
      close(fd[1]);
      _exit(0);
    }
    close(fd[1]);
    std::string res; char buf[65536]; ssize_t n;
    while ((n = read(fd[0], buf, sizeof buf)) > 0) res.append(buf, n);
    close(fd[0]);
    int st = 0; waitpid(pid, &st, 0);
    std::cout << "R " << w[0] << " " << w[1] << " ";
    if (WIFSIGNALED(st)) {
      int s = WTERMSIG(st);
      if (s == SIGALRM) std::cout << "timeout"; else std::cout << "sig" << s;
      std::cout << " | - | -";
    } else if (res.empty()) std::cout << "exit" << WEXITSTATUS(st) << " | - | -";
    else std::cout << res;
    std::cout << "\n";
  }
  return 0;
}
