import PhreeqcVerif.Model.Util
import PhreeqcVerif.Model.NumOps
import PhreeqcVerif.Model.PengRobinson
import PhreeqcVerif.Model.GasPhase
/-! `pmodel gas`: the Float instance of the Peng–Robinson model on the op list the C++ harness `ph_gas` executes.

    clear                                         forget gases and binary parameters
    gas <hexname> <tc> <pc> <omega>               database constants (taken in-process from the real engine)
    kij <hexname1> <hexname2> <k>                 one entry of `gas_binary_parameters`
    pr <iterations> <P> <TK> <Vm> <n> {<hexname> <moles>}*n      `calc_PR(phase_ptrs, P, TK, V_m)`
         -> R <vm> <bsum> <asum> {<x> <pr_p> <pr_phi> <pr_si_f>}*n   |   R early
    prn <iterations> <volume> <TK> <n> {<hexname> <moles>}*n      `calc_PR()` of gases.cpp (numerical fixed-volume path)
         -> R <vm> <bsum> <asum> {<x> <pr_p> <pr_phi> <pr_si_f>}*n <total_p>  |   R early
    eos <P> <TK> <Vm> <n> {<hexname> <moles>}*n   independent EOS evaluation for the relations on real runs
         -> E <P(Vm)> <Vm(P)> <disct(P)> <branch> {<x> <lnphi raw at (P,Vm)> <z-B>}*n
    symtab              -> SYM true|false   (`symmetricTab` on the kij entries given so far)
    damp <vmOld> <vol> <n>   -> DV <dampVm>
    ptest <last> <patm> <totalP>  -> PT true|false   (`pressureTestFails`)
    gasin <f> <P> <moles> <minTotal>  -> GI true|false   (`gasIn`, mb_gases)
    ideal <n> <TK> <V>  -> I <P>
doubles are 16 hex digits of the bit pattern. -/
namespace Driver.Gas
open PhreeqcVerif PhreeqcVerif.Util PhreeqcVerif.PR

/-- the code takes cube roots with `pow(x, 0.33333333333333333)` -/
def codeFns : TransFns Float := { floatFns with cbrt := fun x => Float.pow x 0.33333333333333333 }

local instance (priority := high) codeOps : NumOps Float := { ofRat := floatOfRat, fns := codeFns }

structure St where
  gases : List (Gas Float) := []
  tab : List ((String × String) × Float) := []

def hx (f : Float) : String := hexOfFloat f

def parsePairs : List String → Option (List (String × Float))
  | [] => some []
  | n :: m :: rest =>
    match unhexStr n, floatOfHex m, parsePairs rest with
    | some n, some m, some r => some ((n, m) :: r)
    | _, _, _ => none
  | _ => none

def findGases (st : St) (names : List String) : Option (List (Gas Float)) :=
  names.mapM fun n => st.gases.find? (fun g => g.name == n)

def doPR (st : St) (iter : Int) (p tk vm : Float) (pairs : List (String × Float)) : String :=
  match findGases st (pairs.map (·.1)) with
  | none => "R unknown-gas"
  | some gs =>
    match calcPR st.tab (decide (iter > 0)) gs (pairs.map (·.2)) p tk vm with
    | none => "R early"
    | some o =>
      let ln10 : Float := Float.log 10.0
      let cs := o.comps.map fun c =>
        if isZero c.x then s!" {hx c.x} {hx 0.0} {hx 1.0} {hx 0.0}"
        else s!" {hx c.x} {hx c.p} {hx (Float.exp c.lnphi)} {hx (c.lnphi / ln10)}"
      s!"R {hx o.vm} {hx o.bsum} {hx o.asum}" ++ String.join cs

def doPRN (st : St) (iter : Int) (vol tk : Float) (pairs : List (String × Float)) : String :=
  match findGases st (pairs.map (·.1)) with
  | none => "R unknown-gas"
  | some gs =>
    match calcPRnum st.tab (decide (iter > 0)) gs (pairs.map (·.2)) vol tk with
    | none => "R early"
    | some o =>
      let ln10 : Float := Float.log 10.0
      let cs := o.comps.map fun c =>
        if isZero c.x then s!" {hx c.x} {hx 0.0} {hx 1.0} {hx 0.0}"
        else s!" {hx c.x} {hx c.p} {hx (Float.exp c.lnphi)} {hx (c.lnphi / ln10)}"
      s!"R {hx o.vm} {hx o.bsum} {hx o.asum}" ++ String.join cs ++ s!" {hx o.p}"

def doEOS (st : St) (p tk vm : Float) (pairs : List (String × Float)) : String :=
  match findGases st (pairs.map (·.1)) with
  | none => "E unknown-gas"
  | some gs =>
    match fractions (pairs.map (·.2)) with
    | none => "E early"
    | some xs =>
      let cs := comps tk gs xs
      let m := mix (binaryFactor st.tab) cs
      let rt : Float := gasR * tk
      let c := cubicOf rt m.bsum m.asum p
      let per := (cs.zip m.aa2).map fun (ci, aa2) =>
        let z := p * vm / rt
        let bb := m.bsum * p / rt
        s!" {hx ci.x} {hx (lnPhiRaw rt m.bsum m.asum p vm ci.b aa2)} {hx (z - bb)}"
      s!"E {hx (prP rt m.bsum m.asum vm)} {hx (vmOfP rt m.bsum m.asum p)} {hx c.disct} {c.branch}" ++ String.join per

def step (st : St) (line : String) : St × Option String :=
  match words line with
  | ["clear"] => ({}, none)
  | ["gas", n, tc, pc, om] =>
    match unhexStr n, floatOfHex tc, floatOfHex pc, floatOfHex om with
    | some n, some tc, some pc, some om => ({ st with gases := st.gases ++ [⟨n, tc, pc, om⟩] }, none)
    | _, _, _, _ => (st, some "bad-op")
  | ["kij", a, b, k] =>
    match unhexStr a, unhexStr b, floatOfHex k with
    | some a, some b, some k => ({ st with tab := st.tab ++ [((a, b), k)] }, none)
    | _, _, _ => (st, some "bad-op")
  | "pr" :: it :: p :: tk :: vm :: _n :: rest =>
    match it.toInt?, floatOfHex p, floatOfHex tk, floatOfHex vm, parsePairs rest with
    | some it, some p, some tk, some vm, some pairs => (st, some (doPR st it p tk vm pairs))
    | _, _, _, _, _ => (st, some "bad-op")
  | "prn" :: it :: vol :: tk :: _n :: rest =>
    match it.toInt?, floatOfHex vol, floatOfHex tk, parsePairs rest with
    | some it, some vol, some tk, some pairs => (st, some (doPRN st it vol tk pairs))
    | _, _, _, _ => (st, some "bad-op")
  | ["fresh"] => (st, none)
  | ["damp", a, b, c] =>
    match floatOfHex a, floatOfHex b, floatOfHex c with
    | some vo, some vol, some n => (st, some s!"DV {hx (GasPhase.dampVm vo vol n)}")
    | _, _, _ => (st, some "bad-op")
  | ["ptest", a, b, c] =>
    match floatOfHex a, floatOfHex b, floatOfHex c with
    | some l, some p, some t => (st, some s!"PT {GasPhase.pressureTestFails l p t}")
    | _, _, _ => (st, some "bad-op")
  | ["gasin", a, b, c, d] =>
    match floatOfHex a, floatOfHex b, floatOfHex c, floatOfHex d with
    | some f, some p, some m, some mt => (st, some s!"GI {GasPhase.gasIn f p m mt}")
    | _, _, _, _ => (st, some "bad-op")
  | ["symtab"] => (st, some s!"SYM {symmetricTab st.tab}")
  | "eos" :: p :: tk :: vm :: _n :: rest =>
    match floatOfHex p, floatOfHex tk, floatOfHex vm, parsePairs rest with
    | some p, some tk, some vm, some pairs => (st, some (doEOS st p tk vm pairs))
    | _, _, _, _ => (st, some "bad-op")
  | ["ideal", n, tk, v] =>
    match floatOfHex n, floatOfHex tk, floatOfHex v with
    | some n, some tk, some v => (st, some s!"I {hx (GasPhase.idealP n tk v)}")
    | _, _, _ => (st, some "bad-op")
  | [] => (st, none)
  | _ => (st, some "bad-op")

def run : IO Unit := do
  let lines ← readLines (← IO.getStdin)
  let out ← IO.getStdout
  let mut st : St := {}
  for l in lines do
    let (st', o) := step st l
    st := st'
    match o with
    | some s => out.putStrLn s
    | none => pure ()

end Driver.Gas
