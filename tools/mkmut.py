#!/usr/bin/env python3
"""prepare a fresh mutation trial: scratch worktree /tmp/mut/<ID> and the brief /tmp/mutprompt_<ID>.txt (property text only)"""
import json, subprocess, sys
props = {json.loads(l)['id']: json.loads(l) for l in open('/verif/properties.jsonl')}
for arg in sys.argv[1:]:
    pid = arg[:3]
    p = props[pid]
    text = (f"{p['id']} — {p['title']}\n\n{p['statement']}\n\nQuantified over: {p['quantifier']['text']}\n\n"
            f"Why the existing tests cannot settle it: {p['why_tests_cant']}\n\nCode anchors: {json.dumps(p['anchors'])[:1500]}")
    s = open('/verif/tools/MUTATOR_PROMPT.md').read().replace('@ID@', arg).replace('@PROPERTY@', text)
    open(f'/tmp/mutprompt_{arg}.txt', 'w').write(s)
    r = subprocess.run(f"mkdir -p /tmp/mut && git -C /repo worktree add --detach /tmp/mut/{arg} HEAD", shell=True, capture_output=True, text=True)
    print(arg, r.stderr.strip()[-80:])
