import PhreeqcVerif.Model.SelOut
/-!
Model of the message routing of `IPhreeqc` (src/IPhreeqc.cpp):
`output_msg / log_msg / error_msg / warning_msg / punch_msg / fpunchf (3 overloads) / fpunchf_end_row / EndRow`,
the per-call line splitting of `do_run` / `update_errors` (a `std::getline` loop) and the line accessors.

An event is what the engine hands to the virtual `PHRQ_io` interface; the `on` flag is the value of the
corresponding `PHRQ_io::*_on` member at that moment. Rendering of a value with the block's print format is
*not* modelled: the rendered text is part of the event (`PHRQ_io::fpunchf_helper` renders once per sink from
the same `(format, value)` pair; the harness re-renders with an independent `vsnprintf`).
-/
namespace PhreeqcVerif.Route
open PhreeqcVerif.SelOut

/-! ### line splitting (`while (std::getline(iss, line)) lines.push_back(line)`) -/

def splitLines : List Char → List (List Char)
  | [] => []
  | c :: cs =>
    if c = '\n' then [] :: splitLines cs
    else match splitLines cs with
      | [] => [[c]]
      | l :: ls => (c :: l) :: ls

def joinLines (ls : List (List Char)) : List Char := ls.flatMap (· ++ ['\n'])

/-- line accessor `Get…StringLine(n)`: the n-th line inside `0..count-1`, the empty string outside -/
def lineAt (ls : List (List Char)) (n : Int) : List Char :=
  if n < 0 ∨ n ≥ (ls.length : Int) then [] else ls.getD n.toNat []

/-! ### plain message streams (output, log) -/

structure MsgCfg where
  strOn : Bool
  fileOn : Bool

/-- a message with the `*_on` flag of `PHRQ_io` at the time of the call -/
structure Msg where
  on : Bool
  text : List Char

structure MsgSinks where
  str : List Char := []
  file : List Char := []

def MsgSinks.step (cfg : MsgCfg) (s : MsgSinks) (m : Msg) : MsgSinks :=
  { str := if cfg.strOn && m.on then s.str ++ m.text else s.str,
    file := if cfg.fileOn && m.on then s.file ++ m.text else s.file }

def routeMsgs (cfg : MsgCfg) (ms : List Msg) : MsgSinks := ms.foldl (MsgSinks.step cfg) {}

/-! ### error / warning stream -/

inductive ErrEv where
  | err (on : Bool) (stop : Bool) (text : List Char)
  | warn (on : Bool) (text : List Char)

structure ErrCfg where
  errStrOn : Bool      -- ErrorStringOn
  warnStrOn : Bool     -- WarningStringOn (always true: no setter)
  fileOn : Bool        -- error_ostream != NULL

/-- chunks appended to the error string (`ErrorReporter`) -/
def errStrChunks (cfg : ErrCfg) : List ErrEv → List (List Char)
  | [] => []
  | .err on _ t :: es => if cfg.errStrOn && on then t :: errStrChunks cfg es else errStrChunks cfg es
  | .warn _ _ :: es => errStrChunks cfg es

/-- chunks written to the error file: error text, "Stopping.\n" after a fatal error, warning text + "\n" -/
def errFileChunks (cfg : ErrCfg) : List ErrEv → List (List Char)
  | [] => []
  | .err on stop t :: es =>
    if cfg.fileOn && on then
      (if stop then [t, "Stopping.\n".toList] else [t]) ++ errFileChunks cfg es
    else errFileChunks cfg es
  | .warn on t :: es =>
    if cfg.fileOn && on then (t ++ ['\n']) :: errFileChunks cfg es else errFileChunks cfg es

def warnStrChunks (cfg : ErrCfg) : List ErrEv → List (List Char)
  | [] => []
  | .err _ _ _ :: es => warnStrChunks cfg es
  | .warn _ t :: es => if cfg.warnStrOn then (t ++ ['\n']) :: warnStrChunks cfg es else warnStrChunks cfg es

/-- number of ERROR events of a call -/
def errCount : List ErrEv → Nat
  | [] => 0
  | .err _ _ _ :: es => errCount es + 1
  | .warn _ _ :: es => errCount es

/-! ### selected output: file, string and table per user number -/

inductive PEv where
  /-- `punch_msg` while user number `n` is current -/
  | msg (n : Int) (on : Bool) (text : List Char)
  /-- `fpunchf(name, format, value)`: the value stored in the table and its rendering with `format` -/
  | val (n : Int) (on : Bool) (name : String) (v : Var) (rendered : List Char)
  /-- `fpunchf_end_row` → `EndRow`, with the user-punch headings not yet punched in this row -/
  | endRow (n : Int) (pending : List String)
  /-- `punch_open(file, ios::out, n)`: the punch file of user number `n` is (re)opened, i.e. truncated.
  Happens when a SELECTED_OUTPUT block is read and when `do_run` finds the file switch on without a stream. -/
  | reopen (n : Int)

def PEv.user : PEv → Int
  | .msg n _ _ => n
  | .val n _ _ _ _ => n
  | .endRow n _ => n
  | .reopen n => n

structure PCfg where
  /-- switch consulted by `punch_msg`/`fpunchf` for user number `n` -/
  strOn : Int → Bool
  /-- whether a punch file stream is attached to user number `n` during the run -/
  fileOn : Int → Bool

structure PSinks where
  str : Int → List Char
  file : Int → List Char
  tab : Int → Table

def PSinks.init : PSinks := ⟨fun _ => [], fun _ => [], fun _ => Table.init⟩

def upd {β} (f : Int → β) (n : Int) (g : β → β) : Int → β := fun m => if m = n then g (f m) else f m

def pushPending (t : Table) (pending : List String) : Table :=
  pending.foldl (fun t h => t.pushBack h .empty) t

def PSinks.step (cfg : PCfg) (s : PSinks) : PEv → PSinks
  | .msg n on t =>
    { s with str := upd s.str n (fun x => if cfg.strOn n && on then x ++ t else x),
             file := upd s.file n (fun x => if cfg.fileOn n && on then x ++ t else x) }
  | .val n on name v r =>
    { str := upd s.str n (fun x => if cfg.strOn n && on then x ++ r else x),
      file := upd s.file n (fun x => if cfg.fileOn n && on then x ++ r else x),
      tab := upd s.tab n (fun t => t.pushBack name v) }
  | .endRow n pending =>
    { s with tab := upd s.tab n (fun t => (pushPending t pending).endRow) }
  | .reopen n =>
    { s with file := upd s.file n (fun _ => []) }

def routePunch (cfg : PCfg) (evs : List PEv) : PSinks := evs.foldl (PSinks.step cfg) PSinks.init

/-- text contributed by an event (what both text sinks would receive) -/
def PEv.text : PEv → List Char
  | .msg _ on t => if on then t else []
  | .val _ on _ _ r => if on then r else []
  | .endRow _ _ => []
  | .reopen _ => []

/-- the code as it is: `get_sel_out_string_on(n)` ignores `n` and consults the switch of the *current*
user number (DESIGN.md §6 item 1) -/
def codeStrOn (switches : Int → Bool) (current : Int) : Int → Bool := fun _ => switches current

/-- the property's per-user-number semantics -/
def specStrOn (switches : Int → Bool) : Int → Bool := switches


/-! ## Histories: what survives from one `Run*` call to the next

`RunString/RunFile/RunAccumulated` = `open_output_files` (the output / error / log files whose switch is on are
re-created, i.e. truncated) · `check_database` (error and warning text, selected-output tables, strings and line
vectors, log and output strings and lines are cleared) · `do_run` (events) · line splitting · `close_output_files`
(every punch stream is closed and detached). The files on disk, the switches and the SELECTED_OUTPUT definitions
survive; a punch file is written only while a stream is attached to its user number, and a stream is attached by
`punch_open` only when the file switch of that number is on. -/

/-- selected-output sinks of a history: `att n` = a punch stream is attached to user number `n` -/
structure HSinks where
  str : Int → List Char
  file : Int → List Char
  tab : Int → Table
  att : Int → Bool

def HSinks.step (cfg : PCfg) (s : HSinks) : PEv → HSinks
  | .msg n on t =>
    { s with str := upd s.str n (fun x => if cfg.strOn n && on then x ++ t else x),
             file := upd s.file n (fun x => if s.att n && on then x ++ t else x) }
  | .val n on name v r =>
    { s with str := upd s.str n (fun x => if cfg.strOn n && on then x ++ r else x),
             file := upd s.file n (fun x => if s.att n && on then x ++ r else x),
             tab := upd s.tab n (fun t => t.pushBack name v) }
  | .endRow n pending =>
    { s with tab := upd s.tab n (fun t => (pushPending t pending).endRow) }
  | .reopen n =>
    if cfg.fileOn n then
      { s with file := upd s.file n (fun _ => []), att := upd s.att n (fun _ => true) }
    else s

/-- files on disk (selected-output files per user number) -/
structure Disk where
  out : List Char := []
  log : List Char := []
  err : List Char := []
  sel : Int → List Char := fun _ => []

/-- what the accessors show after a call -/
structure Views where
  outStr : List Char := []
  outLines : List (List Char) := []
  logStr : List Char := []
  logLines : List (List Char) := []
  errStr : List Char := []
  errLines : List (List Char) := []
  warnStr : List Char := []
  warnLines : List (List Char) := []
  selStr : Int → List Char := fun _ => []
  selLines : Int → List (List Char) := fun _ => []
  tab : Int → Table := fun _ => Table.init

structure CallCfg where
  out : MsgCfg
  log : MsgCfg
  err : ErrCfg
  /-- `strOn`: the switch consulted at run time (`codeStrOn` of the raw map and the current number);
  `fileOn`: the raw per-number file switch -/
  sel : PCfg

structure CallEvs where
  outs : List Msg := []
  logs : List Msg := []
  errs : List ErrEv := []
  pevs : List PEv := []

structure Inst where
  disk : Disk := {}
  views : Views := {}

/-- `open_output_files`: a file whose switch is on is re-created -/
def openTrunc (on : Bool) (old : List Char) : List Char := if on then [] else old

def punchCall (cfg : PCfg) (old : Int → List Char) (evs : List PEv) : HSinks :=
  evs.foldl (HSinks.step cfg) ⟨fun _ => [], old, fun _ => Table.init, fun _ => false⟩

def Inst.call (i : Inst) (c : CallCfg) (e : CallEvs) : Inst :=
  let o := routeMsgs c.out e.outs
  let l := routeMsgs c.log e.logs
  let errStr := (errStrChunks c.err e.errs).flatten
  let warnStr := (warnStrChunks c.err e.errs).flatten
  let r := punchCall c.sel i.disk.sel e.pevs
  { disk := { out := openTrunc c.out.fileOn i.disk.out ++ o.file,
              log := openTrunc c.log.fileOn i.disk.log ++ l.file,
              err := openTrunc c.err.fileOn i.disk.err ++ (errFileChunks c.err e.errs).flatten,
              sel := r.file },
    views := { outStr := o.str, outLines := if c.out.strOn then splitLines o.str else [],
               logStr := l.str, logLines := if c.log.strOn then splitLines l.str else [],
               errStr := errStr, errLines := splitLines errStr,
               warnStr := warnStr, warnLines := splitLines warnStr,
               selStr := r.str,
               selLines := fun n => if c.sel.strOn n then splitLines (r.str n) else [],
               tab := r.tab } }

/-- a `Run*` call on an instance WITHOUT a loaded database: `open_output_files` (files whose switch is on are
re-created), `check_database` (clears the views, then raises "No database is loaded" with STOP) — `do_run` is never
entered, so no punch event occurs and the out/log line vectors are split only when `refreshed` (the shape of
`check_database` read from the source: are the line vectors re-split after the error?). -/
def Inst.callNoDb (refreshed : Bool) (i : Inst) (c : CallCfg) (e : CallEvs) : Inst :=
  let r := i.call c { e with pevs := [] }
  if refreshed then r else { r with views := { r.views with outLines := [], logLines := [] } }

/-- a FAILED `LoadDatabase` / `LoadDatabaseString`: the three file switches are forced off for the duration (no file
is opened or written), `UnLoadDatabase` clears error and warning text and every selected-output table, string and
line vector — but NOT the output and log strings, which the messages of the failed load are appended to.
`refreshed`: the out/log line vectors are re-split afterwards (source shape); otherwise they keep showing the lines
of the previous call. -/
def Inst.loadFail (refreshed : Bool) (i : Inst) (c : CallCfg) (e : CallEvs) : Inst :=
  let o := routeMsgs ⟨c.out.strOn, false⟩ e.outs
  let l := routeMsgs ⟨c.log.strOn, false⟩ e.logs
  let ec : ErrCfg := ⟨c.err.errStrOn, c.err.warnStrOn, false⟩
  let errStr := (errStrChunks ec e.errs).flatten
  let warnStr := (warnStrChunks ec e.errs).flatten
  let outStr := i.views.outStr ++ o.str
  let logStr := i.views.logStr ++ l.str
  { disk := i.disk,
    views := { outStr := outStr,
               outLines := if refreshed then (if c.out.strOn then splitLines outStr else []) else i.views.outLines,
               logStr := logStr,
               logLines := if refreshed then (if c.log.strOn then splitLines logStr else []) else i.views.logLines,
               errStr := errStr, errLines := splitLines errStr,
               warnStr := warnStr, warnLines := splitLines warnStr } }

def Inst.run (i : Inst) (h : List (CallCfg × CallEvs)) : Inst := h.foldl (fun i ce => i.call ce.1 ce.2) i

/-! ## Which punch files `do_run` (re)opens and which heading lines `tidy_punch` writes

`SoSt` is the part of the engine state that decides it: the keys of `SelectedOutput_map` (map order), the
`new_def` flag and whether a punch stream is attached. `Sk` is the skeleton of the punch events of a
simulation's prologue: `opened n` = a `punch_open(…, n)` call, `head n` = one heading line for `n`. -/

structure SoSt where
  defs : List Int := []
  newDef : Int → Bool := fun _ => false
  att : Int → Bool := fun _ => false

inductive Sk where
  | opened (n : Int)
  | head (n : Int)
deriving DecidableEq, Repr

/-- `tidy_punch`: one heading line for every block whose `new_def` is set; clears the flags -/
def tidyPunch (s : SoSt) : SoSt × List Sk :=
  ({ s with newDef := fun _ => false }, (s.defs.filter s.newDef).map Sk.head)

def insertKey (n : Int) : List Int → List Int
  | [] => [n]
  | d :: ds => if n < d then n :: d :: ds else if n = d then d :: ds else d :: insertKey n ds

/-- `read_selected_output` for user number `n`; `touch` = an option that sets `new_def` was read.
A stored block is (re)created with `new_def` set and `punch_open` is called for it
(the stream is attached only when the file switch is on). -/
def readBlock (fileSw : Int → Bool) (s : SoSt) (b : Int × Bool) : SoSt × List Sk :=
  if b.2 || !(s.defs.contains b.1) then
    ({ defs := insertKey b.1 s.defs, newDef := upd s.newDef b.1 (fun _ => true),
       att := upd s.att b.1 (fun _ => fileSw b.1) }, [Sk.opened b.1])
  else (s, [])

/-- the loop of `do_run` as written: `tidy_punch` is called inside the loop, once per opened file -/
def openLoopIn (fileSw : Int → Bool) : List Int → SoSt → List Sk → SoSt × List Sk
  | [], s, acc => (s, acc)
  | d :: ds, s, acc =>
    if fileSw d && !s.att d then
      let s1 := { s with att := upd s.att d (fun _ => true), newDef := upd s.newDef d (fun _ => true) }
      let p := tidyPunch s1
      openLoopIn fileSw ds p.1 (acc ++ Sk.opened d :: p.2)
    else openLoopIn fileSw ds s acc

/-- the loop with `tidy_punch` hoisted behind it (proposed repair) -/
def openLoopHoist (fileSw : Int → Bool) (s : SoSt) : SoSt × List Sk :=
  let todo := s.defs.filter (fun d => fileSw d && !s.att d)
  if todo = [] then (s, [])
  else
    let s1 := { s with att := fun n => s.att n || todo.contains n, newDef := fun n => s.newDef n || todo.contains n }
    let p := tidyPunch s1
    (p.1, todo.map Sk.opened ++ p.2)

def openLoop (hoisted : Bool) (fileSw : Int → Bool) (s : SoSt) : SoSt × List Sk :=
  if hoisted then openLoopHoist fileSw s else openLoopIn fileSw s.defs s []

def readBlocks (fileSw : Int → Bool) : List (Int × Bool) → SoSt → List Sk → SoSt × List Sk
  | [], s, acc => (s, acc)
  | b :: bs, s, acc => let p := readBlock fileSw s b; readBlocks fileSw bs p.1 (acc ++ p.2)

/-- prologue of one simulation: blocks read, (first simulation: every `new_def` set), the open loop when
`pr.punch` is on and a block exists, `tidy_model`'s `tidy_punch` when `tidy` -/
def simPrologue (hoisted : Bool) (fileSw : Int → Bool) (first prPunch tidy : Bool)
    (blocks : List (Int × Bool)) (s : SoSt) : SoSt × List Sk :=
  let p1 := readBlocks fileSw blocks s []
  let s2 := if first then { p1.1 with newDef := fun _ => true } else p1.1
  let p3 := if prPunch && !s2.defs.isEmpty then openLoop hoisted fileSw s2 else (s2, [])
  let p4 := if tidy then tidyPunch p3.1 else (p3.1, [])
  (p4.1, p1.2 ++ p3.2 ++ p4.2)

/-- `close_output_files` -/
def SoSt.closeAll (s : SoSt) : SoSt := { s with att := fun _ => false }

def countHead (n : Int) (sk : List Sk) : Nat := sk.count (Sk.head n)

/-! ## print format of a punched value (`punch_identifiers … punch_user_punch`, `PBasic::cmdpunch`) -/

inductive ColKind where
  | intId      -- sim, soln, step, reaction = -99
  | strId      -- state
  | gId        -- dist_x, time
  | gE         -- pH, pe, Alk, mu, mass_H2O, charge, pct_err
  | e4         -- totals, molalities, activities, phases, gases, kinetics, solid solutions, reaction, USER_PUNCH numbers
  | f3         -- temp
  | f4         -- saturation indices
  | userStr (len : Nat) (tab : Bool)   -- USER_PUNCH string of `len` bytes
deriving DecidableEq, Repr

def fieldWidth (hp : Bool) : Nat := if hp then 20 else 12

def fmtOf (hp : Bool) : ColKind → String
  | .intId => if hp then "%20d\t" else "%12d\t"
  | .strId => if hp then "%20s\t" else "%12s\t"
  | .gId => if hp then "%20g\t" else "%12g\t"
  | .gE => if hp then "%20.12e\t" else "%12g\t"
  | .e4 => if hp then "%20.12e\t" else "%12.4e\t"
  | .f3 => if hp then "%20.12e\t" else "%12.3f\t"
  | .f4 => if hp then "%20.12e\t" else "%12.4f\t"
  | .userStr len tab =>
    (if len ≤ fieldWidth hp then (if hp then "%20.20s" else "%12.12s") else "%s") ++ (if tab then "\t" else "")

/-- column class of a built-in column from its table heading and the type of the value -/
def classify (name : String) (isInt isStr : Bool) : Option ColKind :=
  if isStr then (if name = "state" then some .strId else none)
  else if isInt then
    (if name = "sim" ∨ name = "soln" ∨ name = "step" ∨ name = "reaction" then some .intId else none)
  else if name = "dist_x" ∨ name = "time" then some .gId
  else if name = "pH" ∨ name = "pe" ∨ name = "Alk(eq/kgw)" ∨ name = "mu" ∨ name = "mass_H2O" ∨
          name = "charge(eq)" ∨ name = "pct_err" then some .gE
  else if name = "temp(C)" then some .f3
  else if name.startsWith "si_" then some .f4
  else some .e4



/-! ## dump stream (`do_run`: `dump_entities` for the file, `dump_ostream(oss)` for the string)

The dump text never passes through `PHRQ_io`. `dump_info` (`on`, the selection, `append`) survives simulations and
calls. `Phreeqc::dump_ostream` ends with `dump_info.SetAll(false)` ("turn off dump until next read"). Per simulation:
`save := dump_info`; with the file switch on `dump_entities` runs (needs `on` and `pr.dump`, clears `on`, writes —
and thereby clears the selection — when the selection is not empty); with the string switch on `dump_info := save`
and the string is written (and the selection cleared) when `pr.dump` is on and the selection is not empty — `on` is
not consulted (since fix f2ff7714 `pr.dump` is; before it the string ignored PRINT -dump false). -/

structure DumpInfo where
  on : Bool := false
  any : Bool := false
  append : Bool := false
deriving DecidableEq, Repr

structure DumpSt where
  info : DumpInfo := {}
  file : List Char := []
  str : List Char := []
deriving DecidableEq, Repr

/-- `read_dump`: a DUMP block with a selection; `append` = the value of an `-append` option, `none` when the block has
none (the flag of an earlier block then stays in force: `dumper::Read` does not reset it) -/
def DumpSt.readDump (s : DumpSt) (append : Option Bool) : DumpSt :=
  { s with info := ⟨true, true, append.getD s.info.append⟩ }

def putDump (append : Bool) (old d : List Char) : List Char := if append then old ++ d else d

/-- the dump step of one simulation; `d` = the text `dump_ostream` writes for the current selection and state -/
def dumpSim (fileOn strOn prDump : Bool) (d : List Char) (s : DumpSt) : DumpSt :=
  let fires := fileOn && s.info.on && prDump
  let file := if fires && s.info.any then putDump s.info.append s.file d else s.file
  if strOn then
    { info := if prDump && s.info.any then { s.info with any := false } else s.info, file := file,
      str := if prDump && s.info.any then putDump s.info.append s.str d else s.str }
  else
    { info := if fires then { s.info with on := false, any := false } else s.info, file := file, str := s.str }

/-- a simulation: an optional DUMP block (with its -append flag) is read, then the dump step runs -/
def dumpStep (fileOn strOn prDump : Bool) (s : DumpSt) (sim : Option (Option Bool) × List Char) : DumpSt :=
  let s1 := match sim.1 with
    | some app => s.readDump app
    | none => s
  dumpSim fileOn strOn prDump sim.2 s1

/-- the same with `pr.dump` (PRINT -dump) varying from simulation to simulation -/
def dumpStepP (fileOn strOn : Bool) (s : DumpSt) (sim : Bool × Option (Option Bool) × List Char) : DumpSt :=
  dumpStep fileOn strOn sim.1 s sim.2

/-- `GetDumpStringLine`: the line vector is refilled whenever the string is written -/
def dumpLines (s : DumpSt) : List (List Char) := splitLines s.str

end PhreeqcVerif.Route
