import PhreeqcVerif.Lemmas.Assemblage
/-! # C03 — reactant assemblages end in a valid heterogeneous equilibrium state

Theorems about `Model/Assemblage.lean` (the model of `model()` with its `remove_unstable_phases` re-entry, of the PP /
SS_MOLES / EXCH / SURFACE rows of `residuals` and `check_residuals`, of the pure-phase part of `ineq`'s special case and
of `reset`, of `calc_ss_fractions` / `ss_ideal` / `ss_binary` / `ss_calc_a0_a1`).  All statements are over `Rat` with
*uninterpreted* `ln` (`ratOps f`, every `f`): about `LOG_10 = ln 10` only `0 < LOG_10` is assumed where needed.
The tie to the C++ is the correspondence check `tools/props/c03.py` (`pmodel assemblage` executes the same definitions on
`Float` against in-process dumps of real runs and against crafted calls of the real `residuals` / `check_residuals` /
`ineq` / `reset`). -/
set_option linter.style.haveILetI false
set_option linter.unusedSimpArgs false
namespace PhreeqcVerif.Assemblage
open NumOps

/-! ## 1. the gate: a call of `model()` that completes without error ends in an admissible state -/

/-- **model_ok_rows** — for ANY loop body and any iteration budget: if `model()` completes without error then in the
final state `residuals` reported CONVERGED, `remove_unstable_phases` is clear and `check_residuals` neither printed an
error nor asked for another pass -/
theorem model_ok_rows (f : TransFns Rat) (step : State Rat → State Rat) (itmax n : Nat) (s s' : State Rat) :
    letI := ratOps f
    runModel step itmax n s = some s' →
      converged s' = true ∧ s'.removeUnstable = false ∧ checkResiduals s' = (false, false) := by
  letI := ratOps f
  intro h
  have ⟨a, b, c, d⟩ := runModel_sound step itmax n s s' h
  exact ⟨a, b, Prod.ext c d⟩

/-- admissible region of an unrestricted pure phase (the residual is `f·LOG_10`, `f = target − SI`):
not supersaturated beyond `tol`; when present not undersaturated beyond `100·tol` -/
theorem model_ok_pp_admissible (f : TransFns Rat) (step : State Rat → State Rat) (itmax n : Nat) (s s' : State Rat) (u : PP Rat) :
    letI := ratOps f
    runModel step itmax n s = some s' → Row.pp u ∈ s'.rows → u.addFormula = false → u.dissolveOnly = false →
      (-s'.env.tol < u.f * LOG_10) ∧ (0 < u.moles → u.f * LOG_10 < s'.env.tol * 100) := by
  letI := ratOps f
  intro h hu ha hd
  have ⟨g1, g2, g3⟩ := gate_rows step itmax n s s' h _ hu
  have := pp_pass_plain f s'.env s'.iterations u ha hd g1 g2 g3
  exact ⟨this.1, this.2.1⟩

/-- admissible region of a `dissolve_only` phase: when present not undersaturated beyond `tol`; when below its initial
amount not supersaturated beyond `tol` -/
theorem model_ok_pp_admissible_dissolve (f : TransFns Rat) (step : State Rat → State Rat) (itmax n : Nat) (s s' : State Rat)
    (u : PP Rat) :
    letI := ratOps f
    runModel step itmax n s = some s' → Row.pp u ∈ s'.rows → u.addFormula = false → u.dissolveOnly = true →
      (0 < u.moles → u.f * LOG_10 ≤ s'.env.tol) ∧ (u.moles < u.initial → -s'.env.tol ≤ u.f * LOG_10) := by
  letI := ratOps f
  intro h hu ha hd
  exact pp_pass_dissolve f s'.env s'.iterations u ha hd (gate_rows step itmax n s s' h _ hu).1

/-- **model_ok_phases_valid** — for ANY loop body: if `model()` completes without error, every pure-phase unknown
(without alternative formula) whose amount respects the bounds `reset()` maintains (see `restrictions_respected`) is a
`ValidPhase` with the property's tolerance `ε`, provided `100·convergence_tolerance ≤ ε·ln 10`
(default 1e-8: `1e-6 ≤ 2.30e-6`).  `inert` is the amount `set_inert_moles` put aside (0 unless precipitate_only). -/
theorem model_ok_phases_valid (f : TransFns Rat) (step : State Rat → State Rat) (itmax n : Nat) (s s' : State Rat)
    (u : PP Rat) (ε : Rat) :
    letI := ratOps f
    runModel step itmax n s = some s' → Row.pp u ∈ s'.rows → u.addFormula = false →
      0 < (LOG_10 : Rat) → 0 ≤ s'.env.tol → s'.env.tol * 100 ≤ ε * LOG_10 →
      Bounds u → (u.precipOnly = false → u.inert = 0) → (u.precipOnly = true → u.dissolveOnly = false) →
      ValidPhase ε u.final := by
  letI := ratOps f
  intro h hu ha hL htol hε hb hin hpd
  obtain ⟨hm0, hdis⟩ := hb
  by_cases hd : u.dissolveOnly = true
  · have hp : u.precipOnly = false := by
      cases hpo : u.precipOnly with
      | false => rfl
      | true => rw [hpd hpo] at hd; cases hd
    have ⟨a1, a2⟩ := model_ok_pp_admissible_dissolve f step itmax n s s' u h hu ha hd
    have hi := hin hp
    simp only [ValidPhase, PP.final, hd, hp, if_true, NumOps.lit, NumOps.ofRat, id_eq, hi, add_zero, Bool.false_eq_true, if_false]
    refine ⟨hdis hd, fun hm => ?_, fun hm => ?_, hm0⟩
    · have := a1 hm
      have : u.f * LOG_10 ≤ ε * LOG_10 := by linarith
      have := le_of_mul_le hL this
      linarith
    · have := a2 hm
      have : (-ε) * LOG_10 ≤ u.f * LOG_10 := by linarith
      have := le_of_mul_le hL this
      linarith
  · simp only [Bool.not_eq_true] at hd
    have ⟨a1, a2⟩ := model_ok_pp_admissible f step itmax n s s' u h hu ha hd
    have hup : -u.f ≤ ε := by
      have : (-ε) * LOG_10 < u.f * LOG_10 := by linarith
      have := lt_of_mul_lt hL this
      linarith
    have hlow : 0 < u.moles → -ε ≤ -u.f := by
      intro hm
      have := a2 hm
      have : u.f * LOG_10 < (ε + 0) * LOG_10 ∨ u.f * LOG_10 = ε * LOG_10 := by
        rcases lt_or_eq_of_le hε with h1 | h1
        · left; linarith
        · left; linarith
      rcases this with h1 | h1
      · have := lt_of_mul_lt hL h1; linarith
      · have := le_of_mul_le hL (le_of_eq h1); linarith
    cases hp : u.precipOnly with
    | false =>
      have hi := hin hp
      simp only [ValidPhase, PP.final, hd, hp, NumOps.lit, NumOps.ofRat, id_eq, hi, add_zero, Bool.false_eq_true, if_false]
      exact ⟨hm0, fun hm => ⟨hlow hm, hup⟩, hup⟩
    | true =>
      simp only [ValidPhase, PP.final, hd, hp, NumOps.lit, NumOps.ofRat, id_eq, Bool.false_eq_true, if_false, if_true]
      refine ⟨by linarith, fun hm => ⟨hlow (by linarith), hup⟩, hup⟩

/-- the executable test used on the dumps decides `ValidPhase` -/
theorem validPhaseB_iff (f : TransFns Rat) (ε : Rat) (p : Final Rat) :
    letI := ratOps f
    validPhaseB ε p = true ↔ ValidPhase ε p := by
  letI := ratOps f
  simp only [validPhaseB, ValidPhase]
  split
  · simp only [Bool.and_eq_true, Bool.or_eq_true, Bool.not_eq_true', decide_eq_true_eq, decide_eq_false_iff_not]
    constructor
    · rintro ⟨⟨⟨a, b⟩, c⟩, d⟩
      exact ⟨a, fun h => b.resolve_left (not_not.mpr h), fun h => c.resolve_left (not_not.mpr h), d⟩
    · rintro ⟨a, b, c, d⟩
      exact ⟨⟨⟨a, by by_cases h : lit 0 < p.moles <;> [exact Or.inr (b h); exact Or.inl h]⟩,
        by by_cases h : p.moles < p.initial <;> [exact Or.inr (c h); exact Or.inl h]⟩, d⟩
  · split
    · simp only [Bool.and_eq_true, Bool.or_eq_true, Bool.not_eq_true', decide_eq_true_eq, decide_eq_false_iff_not]
      constructor
      · rintro ⟨⟨a, b⟩, c⟩
        exact ⟨a, fun h => b.resolve_left (not_not.mpr h), c⟩
      · rintro ⟨a, b, c⟩
        exact ⟨⟨a, by by_cases h : p.initial < p.moles <;> [exact Or.inr (b h); exact Or.inl h]⟩, c⟩
    · simp only [Bool.and_eq_true, Bool.or_eq_true, Bool.not_eq_true', decide_eq_true_eq, decide_eq_false_iff_not]
      constructor
      · rintro ⟨⟨a, b⟩, c⟩
        exact ⟨a, fun h => b.resolve_left (not_not.mpr h), c⟩
      · rintro ⟨a, b, c⟩
        exact ⟨⟨a, by by_cases h : lit 0 < p.moles <;> [exact Or.inr (b h); exact Or.inl h]⟩, c⟩

/-! ## 2. restrictions: what `reset()` and `set_inert_moles` guarantee for the amounts -/

/-- **restrictions_respected** (`reset()`).  Whatever deltas the inequality solver returns (cl1 is an oracle): if before
the update every pure phase has `0 ≤ moles` and every dissolve_only phase has `moles ≤ initial`, the same holds after
`reset()` — a phase never loses more than it has, a dissolve_only phase never exceeds its initial amount (exact arithmetic) -/
theorem restrictions_respected (f : TransFns Rat) (e : Env Rat) (us : List (PP Rat × Rat)) :
    letI := ratOps f
    (∀ p ∈ us, Bounds p.1) → ∀ u' ∈ resetPP e us, 0 ≤ u'.moles ∧ (u'.dissolveOnly = true → u'.moles ≤ u'.initial) := by
  letI := ratOps f
  intro hb u' hu'
  exact resetPP_bounds f e us hb u' hu'

/-- `reset()` changes neither the flags nor the initial amount of a phase, and keeps the order of the unknowns -/
theorem resetPP_frame (f : TransFns Rat) (e : Env Rat) (u : PP Rat) (d : Rat) :
    letI := ratOps f
    (resetApply e u d).dissolveOnly = u.dissolveOnly ∧ (resetApply e u d).initial = u.initial ∧
    (resetApply e u d).inert = u.inert ∧ (resetApply e u d).precipOnly = u.precipOnly ∧
    (resetApply e u d).addFormula = u.addFormula := by
  simp [resetApply]

/-- precipitate_only: the public amount `moles + inert_moles` never falls below the amount set aside at the start -/
theorem precipitate_only_respected (f : TransFns Rat) (u : PP Rat) :
    letI := ratOps f
    Bounds u → u.precipOnly = true → u.final.initial ≤ u.final.moles := by
  letI := ratOps f
  intro hb hp
  simp only [PP.final, hp, if_true]
  have := hb.1
  linarith

/-- the special case of `ineq` (removing unstable phases) followed by `reset()` removes a present, undersaturated,
unrestricted phase completely: it ends at exactly 0 mol -/
theorem remove_unstable_exact (f : TransFns Rat) (e : Env Rat) (u : PP Rat) :
    letI := ratOps f
    0 ≤ e.ineqTol → 0 < u.f * LOG_10 → 0 < u.moles → u.addFormula = false → u.dissolveOnly = false →
      (resetApply e u (removeDelta u)).moles = 0 := by
  letI := ratOps f
  intro ht c1 c2 c3 c4
  simp [removeDelta, resetApply, equalTol, absv, NumOps.lit, NumOps.ofRat, c1, c2, c3, c4, ht]

/-! ## 2b. the rows `ineq()` hands to `cl1` carry the restrictions -/

/-- **ineq_rows_keep_restrictions** — the inequality rows and the sign restriction that `ineq()` writes for a pure phase:
ANY vector `x` that satisfies them (and is 0 on a column that `ineq()` zeroed, i.e. a variable that occurs in no row)
gives a new amount `moles − x_i` that is not negative and, for dissolve_only, not above the initial amount.  With an exact
LP solver the scaling in `reset()` therefore never acts; `reset()` is the safety net for the inexact one. -/
theorem ineq_rows_keep_restrictions (f : TransFns Rat) (e : IEnv Rat) (i : Nat) (u : IUnk Rat) (z : List Bool) (x : List Rat) :
    letI := ratOps f
    u.type = 18 → z.getD i false = zeroCol e i u →
    0 ≤ u.moles → (u.dissolveOnly = true → u.moles ≤ u.initial) →
    (∀ r ∈ ppIneqRows i u, r.lhs z x ≤ r.rhs) → (ppSign u < 0 → getL x i ≤ 0) → (zeroCol e i u = true → getL x i = 0) →
      0 ≤ u.moles - getL x i ∧ (u.dissolveOnly = true → u.moles - getL x i ≤ u.initial) := by
  letI := ratOps f
  intro ht hz hm hd hrows hsign hzero
  by_cases hzc : zeroCol e i u = true
  · have := hzero hzc
    rw [this]
    exact ⟨by linarith, fun h => by have := hd h; linarith⟩
  · have hzf : zeroCol e i u = false := by simpa using hzc
    have hparts : u.phaseIn = true ∧ ppIdle u = false ∧ ppBlocked u = false := by
      simp only [zeroCol, ht, Bool.or_eq_false_iff, Bool.not_eq_false'] at hzf
      exact ⟨hzf.1.2, hzf.1.1, hzf.2⟩
    obtain ⟨hin, hidle, hblk⟩ := hparts
    rw [hzf] at hz
    by_cases hpos : u.moles ≤ 0
    · -- absent: sign restriction
      have hs : ppSign u < 0 := by
        simp (config := { zetaDelta := true }) [ppSign, ht, hin, hidle, NumOps.lit, NumOps.ofRat, hpos]
      have hx := hsign hs
      refine ⟨by linarith, fun hdis => ?_⟩
      have hr := hrows (IRow.unit i i (-(lit 1)) (u.initial - u.moles)) (by
        simp (config := { zetaDelta := true }) [ppIneqRows, hin, hidle, hdis, hpos, NumOps.lit, NumOps.ofRat])
      simp (config := { zetaDelta := true }) only [IRow.lhs, IRow.rhs, hz, NumOps.lit, NumOps.ofRat, id_eq, Bool.false_eq_true, if_false] at hr
      linarith
    · have hr1 := hrows (IRow.unit i i (lit 1) u.moles) (by
        simp (config := { zetaDelta := true }) [ppIneqRows, hin, hidle, hblk, hpos, NumOps.lit, NumOps.ofRat])
      simp (config := { zetaDelta := true }) only [IRow.lhs, IRow.rhs, hz, NumOps.lit, NumOps.ofRat, id_eq, Bool.false_eq_true, if_false] at hr1
      refine ⟨by linarith, fun hdis => ?_⟩
      have hr := hrows (IRow.unit i i (-(lit 1)) (u.initial - u.moles)) (by
        simp (config := { zetaDelta := true }) [ppIneqRows, hin, hidle, hblk, hdis, hpos, NumOps.lit, NumOps.ofRat])
      simp (config := { zetaDelta := true }) only [IRow.lhs, IRow.rhs, hz, NumOps.lit, NumOps.ofRat, id_eq, Bool.false_eq_true, if_false] at hr
      linarith

/-- the pure-phase inequality rows are rows of the system handed to `cl1` -/
theorem ppIneqRows_mem (f : TransFns Rat) (e : IEnv Rat) (us : List (IUnk Rat)) (jac : List (List Rat)) :
    letI := ratOps f
    ∀ p ∈ enum 0 (us.zip jac), p.2.1.type = 18 → ∀ r ∈ ppIneqRows p.1 p.2.1, r ∈ ineqRows e us jac := by
  letI := ratOps f
  intro p hp ht r hr
  simp only [ineqRows, List.mem_append, List.mem_flatMap]
  left; right
  exact ⟨p, hp, by simp [ht, hr]⟩

/-- a delta that respects the rows is left alone by the scan of `reset()`: no clamp, no scaling (`factor` unchanged) -/
theorem feasible_no_scaling (f : TransFns Rat) (u : PP Rat) (d factor : Rat) :
    letI := ratOps f
    0 ≤ u.moles → -100000000 ≤ d → d ≤ 100000000 → (0 < u.moles → d ≤ u.moles) → (u.moles ≤ 0 → d ≤ 0) →
    (u.dissolveOnly = true → -d ≤ u.initial - u.moles) →
      resetScan u d factor = (d, factor) := by
  intro hm h1 h2 h3 h4 h5
  simp only [resetScan, clampDelta, scanDissolve, scanRemove, NumOps.lit, NumOps.ofRat, id_eq]
  have c1 : ¬ d < -100000000 := by linarith
  have c2 : ¬ (100000000 : Rat) < d := by linarith
  simp only [c1, c2, if_false]
  by_cases hdis : u.dissolveOnly = true
  · have c3 : ¬ (u.initial - u.moles < -d) := by have := h5 hdis; linarith
    by_cases hp : 0 < u.moles
    · have c4 : ¬ u.moles < d := by have := h3 hp; linarith
      have c5 : ¬ u.moles ≤ 0 := by linarith
      simp [hdis, c3, hp, c4, c5]
    · have c6 : u.moles ≤ 0 := by linarith
      have c7 : ¬ 0 < d := by have := h4 c6; linarith
      simp [hdis, c3, hp, c6, c7]
  · simp only [Bool.not_eq_true] at hdis
    by_cases hp : 0 < u.moles
    · have c4 : ¬ u.moles < d := by have := h3 hp; linarith
      have c5 : ¬ u.moles ≤ 0 := by linarith
      simp [hdis, hp, c4, c5]
    · have c6 : u.moles ≤ 0 := by linarith
      have c7 : ¬ 0 < d := by have := h4 c6; linarith
      simp [hdis, hp, c6, c7]

/-! ## 3. solid solutions -/

/-- **ssIdeal_simplex** — `calc_ss_fractions` / `ss_ideal`: for component amounts that are all positive (the code keeps
them `≥ MIN_TOTAL_SS > 0`) every mole fraction is positive and the fractions sum to exactly one -/
theorem ssIdeal_simplex (f : TransFns Rat) (ns : List Rat) :
    letI := ratOps f
    ns ≠ [] → (∀ n ∈ ns, 0 < n) → (∀ x ∈ ssIdeal ns, 0 < x) ∧ sumL (ssIdeal ns) = 1 := by
  letI := ratOps f
  intro hne hp
  have ht : ssTotal ns = sumL ns := ssTotal_eq f ns
  have hpos : 0 < sumL ns := sumL_pos f ns hne hp
  constructor
  · intro x hx
    simp only [ssIdeal, List.mem_map] at hx
    obtain ⟨n, hn, rfl⟩ := hx
    rw [ht]
    exact div_pos (hp n hn) hpos
  · simp only [ssIdeal]
    rw [sumL_map_div f ns (ssTotal ns), ht]
    exact div_self (ne_of_gt hpos)

/-- ideal component: `log10 λ = 0`, so a passing SS_MOLES row has `|SI − log10 x| ≤ ε`: the activity `10^SI` of the
component equals its mole fraction (`ε·ln 10 ≥ tol`).  `lfx` = `log10_fraction_x`, `si = IAP − lk` -/
theorem ss_ideal_activity (f : TransFns Rat) (step : State Rat → State Rat) (itmax n : Nat) (s s' : State Rat)
    (lk iap lfx moles ε : Rat) :
    letI := ratOps f
    runModel step itmax n s = some s' → Row.ss true (lk + lfx + 0 - iap) moles ∈ s'.rows →
      0 < (LOG_10 : Rat) → s'.env.tol ≤ ε * LOG_10 → -ε ≤ (iap - lk) - lfx ∧ (iap - lk) - lfx ≤ ε := by
  letI := ratOps f
  intro h hr hL hε
  have g := (gate_rows step itmax n s s' h _ hr).1
  simp only [Row.fails, absGt, Bool.true_and, Bool.or_eq_false_iff, decide_eq_false_iff_not, not_lt] at g
  obtain ⟨g1, g2⟩ := g
  constructor
  · have : (lk + lfx + 0 - iap) * LOG_10 ≤ ε * LOG_10 := by linarith
    have := le_of_mul_le hL this
    linarith
  · have : (-ε) * LOG_10 ≤ (lk + lfx + 0 - iap) * LOG_10 := by linarith
    have := le_of_mul_le hL this
    linarith

/-- `ss_binary`: the two mole fractions it stores sum to one, inside and outside a miscibility gap -/
theorem ssBinary_fractions (f : TransFns Rat) (a0 a1 xb1 xb2 nc nb : Rat) (misc : Bool) :
    letI := ratOps f
    nc + nb ≠ 0 → (ssBinary a0 a1 misc xb1 xb2 nc nb (nc + nb)).xc + (ssBinary a0 a1 misc xb1 xb2 nc nb (nc + nb)).xb = 1 := by
  letI := ratOps f
  intro hn
  simp only [ssBinary, NumOps.lit, NumOps.ofRat, id_eq]
  split
  · simp
  · simp only []
    field_simp

/-- the `log10 λ` that `ss_binary` stores are the Guggenheim expressions divided by `LOG_10` -/
theorem ssBinary_lambdas (f : TransFns Rat) (a0 a1 xb1 xb2 nc nb nt : Rat) :
    letI := ratOps f
    (ssBinary a0 a1 false xb1 xb2 nc nb nt).l10c = lnLambdaC a0 a1 (nb / nt) / LOG_10 ∧
    (ssBinary a0 a1 false xb1 xb2 nc nb nt).l10b = lnLambdaB a0 a1 (nb / nt) (nc / nt) / LOG_10 := by
  simp [ssBinary, lnLambdaC, lnLambdaB]

/-- the coded activity coefficients are those of the two-parameter Guggenheim (Redlich–Kister) excess free energy:
`x_c·ln λ_c + x_b·ln λ_b = x_b·x_c·(a0 + a1·(x_b − x_c))` -/
theorem guggenheim_excess (f : TransFns Rat) (a0 a1 xb xc : Rat) :
    letI := ratOps f
    xc + xb = 1 → xc * lnLambdaC a0 a1 xb + xb * lnLambdaB a0 a1 xb xc = xb * xc * (a0 + a1 * (xb - xc)) := by
  intro h
  have hc : xc = 1 - xb := by linarith
  subst hc
  simp only [lnLambdaC, lnLambdaB, NumOps.lit, NumOps.ofRat, id_eq]
  ring

/-- Gibbs–Duhem for the coded pair: with `dC`, `dB` the polynomial derivatives of `ln λ_c`, `ln λ_b` with respect to
`x_b` (first identity: they are the linear coefficients of the increments), `x_c·dC + x_b·dB = 0` -/
theorem guggenheim_gibbs_duhem (f : TransFns Rat) (a0 a1 x h : Rat) :
    letI := ratOps f
    let dC := 2 * x * (a0 - a1 * (3 - 4 * x)) + 4 * a1 * x ^ 2
    let dB := -2 * (1 - x) * (a0 + a1 * (4 * x - 1)) + 4 * a1 * (1 - x) ^ 2
    lnLambdaC a0 a1 (x + h) - lnLambdaC a0 a1 x = h * dC + h ^ 2 * (a0 - 3 * a1 + 12 * a1 * x + 4 * a1 * h) ∧
    lnLambdaB a0 a1 (x + h) (1 - (x + h)) - lnLambdaB a0 a1 x (1 - x) =
      h * dB + h ^ 2 * (a0 - 9 * a1 + 12 * a1 * x + 4 * a1 * h) ∧
    (1 - x) * dC + x * dB = 0 := by
  simp only [lnLambdaC, lnLambdaB, NumOps.lit, NumOps.ofRat, id_eq]
  refine ⟨by ring, by ring, by ring⟩

/-- `ss_calc_a0_a1`: the dimensional forms are the dimensionless parameters times `R·T`; the Margules form gives
`ln λ_c = x_b²·(α2 + α3·x_b)` -/
theorem guggParams_forms (f : TransFns Rat) (p0 p1 rt xb : Rat) :
    letI := ratOps f
    rt ≠ 0 →
    (∀ a, guggParams 7 p0 p1 rt = some a → a.1 * rt = p0 ∧ a.2 * rt = p1) ∧
    (∀ a, guggParams 8 p0 p1 rt = some a → (a.1 + a.2) * rt = p0 ∧ (a.1 - a.2) * rt = p1) ∧
    (∀ a, guggParams 9 p0 p1 rt = some a → lnLambdaC a.1 a.2 xb = xb * xb * (p0 + p1 * xb)) ∧
    guggParams 0 p0 p1 rt = some (p0, p1) := by
  intro hrt
  refine ⟨?_, ?_, ?_, rfl⟩
  · intro a ha
    simp only [guggParams, Option.some.injEq] at ha
    subst ha
    constructor <;> field_simp
  · intro a ha
    simp only [guggParams, Option.some.injEq, NumOps.lit, NumOps.ofRat, id_eq] at ha
    subst ha
    constructor <;> field_simp <;> ring
  · intro a ha
    simp only [guggParams, Option.some.injEq, NumOps.lit, NumOps.ofRat, id_eq] at ha
    subst ha
    simp only [lnLambdaC, NumOps.lit, NumOps.ofRat, id_eq]
    ring

/-! ## 4. exchangers and surfaces -/

/-- **exchange_capacity** — completed without error ⇒ the sum over the exchange species equals the defined capacity
within `convergence_tolerance` relative (capacity above `MIN_RELATED_SURFACE`), absolute below -/
theorem exchange_capacity (f : TransFns Rat) (step : State Rat → State Rat) (itmax n : Nat) (s s' : State Rat) (m fs : Rat) :
    letI := ratOps f
    runModel step itmax n s = some s' → Row.exch m fs ∈ s'.rows →
      (s'.env.minRel < m → -(s'.env.tol * m) ≤ m - fs ∧ m - fs ≤ s'.env.tol * m) ∧
      (m ≤ s'.env.minRel → -(s'.env.tol) ≤ m - fs ∧ m - fs ≤ s'.env.tol) := by
  letI := ratOps f
  intro h hr
  have g := (gate_rows step itmax n s s' h _ hr).1
  simp only [Row.fails, absGt] at g
  constructor
  · intro hm
    have : ¬ m ≤ s'.env.minRel := by linarith
    simp only [this, if_false, Bool.or_eq_false_iff, decide_eq_false_iff_not, not_lt] at g
    constructor <;> linarith [g.1, g.2]
  · intro hm
    simp only [hm, if_true, Bool.or_eq_false_iff, decide_eq_false_iff_not, not_lt] at g
    constructor <;> linarith [g.1, g.2]

/-- a SURFACE row that passes `residuals` -/
theorem surf_pass (f : TransFns Rat) (e : Env Rat) (it : Nat) (m fs : Rat) :
    letI := ratOps f
    (Row.surf m fs).fails e it = false → e.minRel < m →
      (-(e.tol * m) ≤ m - fs ∧ m - fs ≤ e.tol * m) ∨
      (-(e.ineqTol) < m - fs ∧ m - fs < e.ineqTol ∧ -(m / 100) < m - fs ∧ m - fs < m / 100) := by
  intro h hm
  simp only [Row.fails, absGt, absLt, NumOps.lit, NumOps.ofRat, id_eq] at h
  split at h <;> simp at h <;> grind

/-- **surface_sites** — the same for a SURFACE row, with the code's exemption for residuals below `ineq_tol` (1e-15 mol)
that are also below 1 % of the sites -/
theorem surface_sites (f : TransFns Rat) (step : State Rat → State Rat) (itmax n : Nat) (s s' : State Rat) (m fs : Rat) :
    letI := ratOps f
    runModel step itmax n s = some s' → Row.surf m fs ∈ s'.rows → s'.env.minRel < m →
      (-(s'.env.tol * m) ≤ m - fs ∧ m - fs ≤ s'.env.tol * m) ∨
      (-(s'.env.ineqTol) < m - fs ∧ m - fs < s'.env.ineqTol ∧ -(m / 100) < m - fs ∧ m - fs < m / 100) := by
  letI := ratOps f
  intro h hr hm
  exact surf_pass f s'.env s'.iterations m fs (gate_rows step itmax n s s' h _ hr).1 hm

/-! ## 5. the loop keeps what its body keeps -/

/-- an invariant of the rows that the loop body preserves holds in the state `model()` returns -/
theorem runModel_invariant (f : TransFns Rat) (step : State Rat → State Rat) (itmax n : Nat) (s s' : State Rat)
    (Inv : List (Row Rat) → Prop) :
    letI := ratOps f
    (∀ t, Inv t.rows → Inv (step t).rows) → Inv s.rows → runModel step itmax n s = some s' → Inv s'.rows := by
  letI := ratOps f
  intro hstep
  induction n generalizing s with
  | zero => intro _ h; simp [runModel] at h
  | succ n ih =>
    intro hi h
    simp only [runModel] at h
    split at h
    · split at h
      · cases h
      · split at h
        · exact ih { s with removeUnstable := true } hi h
        · cases h; exact hi
    · split at h
      · cases h
      · refine ih { (step { s with iterations := s.iterations + 1 }) with
          iterations := s.iterations + 1, removeUnstable := false, env := s.env } ?_ h
        exact hstep { s with iterations := s.iterations + 1 } hi

/-- **model_ok_phases_valid_all** — if the loop body keeps the amount bounds of the pure phases (its `reset()` part does:
`restrictions_respected`; nothing else in the body writes pure-phase amounts), then a call that completes without error
ends with EVERY pure phase (without alternative formula) valid -/
theorem model_ok_phases_valid_all (f : TransFns Rat) (step : State Rat → State Rat) (itmax n : Nat) (s s' : State Rat) (ε : Rat) :
    letI := ratOps f
    let Inv : List (Row Rat) → Prop := fun rows => ∀ u, Row.pp u ∈ rows →
      Bounds u ∧ (u.precipOnly = false → u.inert = 0) ∧ (u.precipOnly = true → u.dissolveOnly = false)
    (∀ t, Inv t.rows → Inv (step t).rows) → Inv s.rows → runModel step itmax n s = some s' →
      0 < (LOG_10 : Rat) → 0 ≤ s'.env.tol → s'.env.tol * 100 ≤ ε * LOG_10 →
      ∀ u, Row.pp u ∈ s'.rows → u.addFormula = false → ValidPhase ε u.final := by
  letI := ratOps f
  intro Inv hstep hi h hL htol hε u hu ha
  have hinv := runModel_invariant f step itmax n s s' Inv hstep hi h u hu
  exact model_ok_phases_valid f step itmax n s s' u ε h hu ha hL htol hε hinv.1 hinv.2.1 hinv.2.2

/-! ## 6. non-vacuity: concrete instances -/

def toyFns : TransFns Rat :=
  { log10 := id, exp10 := id, ln := fun _ => 23 / 10, exp := id, sqrt := id, sinh := id, cos := id, acos := id, cbrt := id, floor := id }

def toyEnv : Env Rat := { tol := 1 / 100000000, ineqTol := 1 / 1000000000000000, minRel := 1 / 100000000000000000000000 }

/-- phase A: present (1 mmol) but undersaturated by one log unit; phase B: absent and supersaturated by half a unit;
phase C: dissolve_only at its initial amount and supersaturated (allowed); an exchanger with exact capacity -/
def toyStart : State Rat :=
  letI := ratOps toyFns
  { env := toyEnv, iterations := 0, removeUnstable := false, other := true, otherErr := false,
    rows := [Row.pp { moles := 1 / 1000, f := 1, dissolveOnly := false, addFormula := false, initial := 1 / 1000, inert := 0 },
             Row.pp { moles := 0, f := -1 / 2, dissolveOnly := false, addFormula := false, initial := 0, inert := 0 },
             Row.pp { moles := 1 / 50, f := -3, dissolveOnly := true, addFormula := false, initial := 1 / 50, inert := 0 },
             Row.exch (1 / 10) (1 / 10)] }

/-- a loop body: in the "remove unstable phases" pass it applies `ineq`'s special case and `reset()`;
otherwise it precipitates 10 mmol of every supersaturated unrestricted phase, which brings it to equilibrium -/
def toyStep (s : State Rat) : State Rat :=
  letI := ratOps toyFns
  { s with rows := s.rows.map fun r => match r with
      | Row.pp u =>
          if s.removeUnstable then Row.pp (resetApply s.env u (removeDelta u))
          else if u.f < 0 ∧ u.dissolveOnly = false then Row.pp { u with moles := u.moles + 1 / 100, f := 0 } else Row.pp u
      | r => r }

def molesOf : Row Rat → Rat
  | Row.pp u => u.moles
  | Row.ss _ _ m => m
  | Row.exch m _ => m
  | Row.surf m _ => m

-- the start is not accepted (iteration 0), too little fuel or too few iterations end without a result, …
example : letI := ratOps toyFns; converged toyStart = false := by decide +kernel
example : letI := ratOps toyFns; (runModel toyStep 100 3 toyStart).isSome = false := by decide +kernel
example : letI := ratOps toyFns; (runModel toyStep 1 10 toyStart).isSome = false := by decide +kernel
-- … with enough of both the call completes after the re-entry: A was removed completely, B precipitated, C untouched
example : letI := ratOps toyFns;
    (runModel toyStep 100 10 toyStart).map (fun s => (s.rows.map molesOf, s.iterations, s.removeUnstable)) =
      some ([0, 1 / 100, 1 / 50, 1 / 10], 2, false) := by decide +kernel
-- every pure phase of the result is a ValidPhase at 1e-6 (A absent & undersaturated, B present at SI = target,
-- C dissolve_only at its initial amount and supersaturated)
example : letI := ratOps toyFns;
    ((runModel toyStep 100 10 toyStart).map fun s => s.rows.all fun r => match r with
      | Row.pp u => validPhaseB (1 / 1000000) u.final
      | _ => true) = some true := by decide +kernel
-- the predicate is not trivially true: present & undersaturated, absent & supersaturated, dissolve_only above its
-- initial amount and precipitate_only below it are all rejected
example : letI := ratOps toyFns; validPhaseB (1 / 1000000 : Rat) { moles := 1 / 1000, d := -1, initial := 0, dissolveOnly := false, precipOnly := false } = false := by decide +kernel
example : letI := ratOps toyFns; validPhaseB (1 / 1000000 : Rat) { moles := 0, d := 1 / 2, initial := 0, dissolveOnly := false, precipOnly := false } = false := by decide +kernel
example : letI := ratOps toyFns; validPhaseB (1 / 1000000 : Rat) { moles := 2, d := 0, initial := 1, dissolveOnly := true, precipOnly := false } = false := by decide +kernel
example : letI := ratOps toyFns; validPhaseB (1 / 1000000 : Rat) { moles := 1 / 2, d := 0, initial := 1, dissolveOnly := false, precipOnly := true } = false := by decide +kernel
-- the gate: a supersaturated absent phase is an ERROR of check_residuals, a present undersaturated one asks for another pass
example : letI := ratOps toyFns;
    (Row.pp { moles := 0, f := -1 / 2, dissolveOnly := false, addFormula := false, initial := 0, inert := 0 } : Row Rat).check toyEnv = (true, false) := by decide +kernel
example : letI := ratOps toyFns;
    (Row.pp { moles := 1, f := 1 / 1000000, dissolveOnly := false, addFormula := false, initial := 0, inert := 0 } : Row Rat).check toyEnv = (false, true) := by decide +kernel
-- 100·tol/ln10 = 4.3e-7 < 1e-6: a present phase 4e-7 log units below its target passes both tests (hypothesis of the theorem)
example : letI := ratOps toyFns;
    (Row.pp { moles := 1, f := 4 / 10000000, dissolveOnly := false, addFormula := false, initial := 0, inert := 0 } : Row Rat).check toyEnv = (false, false) := by decide +kernel
example : (toyEnv.tol * 100 ≤ (1 / 1000000 : Rat) * toyFns.ln 10) := by decide +kernel
-- reset(): 3 mmol present, cl1 asks to dissolve 5 mmol of it and 1 mmol of a second phase: the common factor 5/3 scales
-- both, the first ends at exactly 0, the second keeps 2 − 0.6 mmol; a dissolve_only phase 1 mmol below its initial amount
-- that is asked to precipitate 4 mmol gets factor 4 and ends exactly at its initial amount
example : letI := ratOps toyFns;
    (resetPP toyEnv [({ moles := 3 / 1000, f := 1, dissolveOnly := false, addFormula := false, initial := 0, inert := 0 }, 5 / 1000),
                     ({ moles := 2 / 1000, f := 1, dissolveOnly := false, addFormula := false, initial := 0, inert := 0 }, 1 / 1000)]).map (·.moles)
      = [0, 2 / 1000 - 3 / 5000] := by decide +kernel
example : letI := ratOps toyFns;
    (resetPP toyEnv [({ moles := 4 / 1000, f := -1, dissolveOnly := true, addFormula := false, initial := 5 / 1000, inert := 0 }, -4 / 1000)]).map (·.moles)
      = [5 / 1000] := by decide +kernel
-- fractions of an ideal three-component solid solution
example : letI := ratOps toyFns; ssIdeal [(1 / 10 : Rat), 3 / 10, 1 / 10] = [1 / 5, 3 / 5, 1 / 5] := by decide +kernel
example : letI := ratOps toyFns; sumL (ssIdeal [(1 / 10 : Rat), 3 / 10, 1 / 10]) = 1 := by decide +kernel
-- binary: outside the gap the fractions are n/ntot, inside (0.1 < xb < 0.8) the composition is pinned to xb1
example : letI := ratOps toyFns;
    ((ssBinary 3 0 true (1 / 10) (8 / 10) (1 / 2) (1 / 2) 1).xb, (ssBinary 3 0 true (1 / 10) (8 / 10) (19 / 20) (1 / 20) 1).xb) = ((1 / 10 : Rat), (1 / 20 : Rat)) := by
  decide +kernel
example : letI := ratOps toyFns; guggParams 7 (5 : Rat) 1 (5 / 2) = some (2, 2 / 5) := by decide +kernel

-- ineq(): Calcite present (2 mmol, slightly undersaturated), Gypsum absent and undersaturated (idle: no row, column zeroed),
-- Dolomite dissolve_only 1 mmol below its 5 mmol, an absent supersaturated phase (sign restriction), one mass balance:
-- rows in the order optimise / equality / inequality, `back_eq` = sources
def toyIneqEnv : IEnv Rat :=
  { iterations := 3, aqueousOnly := 0, equiDelay := 0, ppScale := 1, inKode := 1, minRel := 1 / 100000000000000000000000,
    minTotalSS := 1 / 1000000000000000000000000000, massWaterSwitch := false, oxygenIdx := 99, hydrogenIdx := 99, exchRelated := false }
def toyIneqUs : List (IUnk Rat) :=
  [{ type := 10, moles := 1 / 100, f := 1 / 100, initial := 0, grams := 0, iteration := 3 },
   { type := 18, moles := 2 / 1000, f := 1 / 1000, initial := 2 / 1000, grams := 0, iteration := 3 },
   { type := 18, moles := 0, f := 1, initial := 0, grams := 0, iteration := 3 },
   { type := 18, moles := 4 / 1000, f := 1 / 100, initial := 5 / 1000, grams := 0, iteration := 3, dissolveOnly := true },
   { type := 18, moles := 0, f := -1 / 2, initial := 0, grams := 0, iteration := 3 }]
def toyJac : List (List Rat) :=
  [[1, -1, 0, -1, -1, 0], [2, 0, 0, 0, 0, 1 / 1000], [1, 0, 0, 0, 0, 1], [3, 0, 0, 0, 0, 1 / 100], [1, 0, 0, 0, 0, -1 / 2]]
example : letI := ratOps toyFns; (ineqRows toyIneqEnv toyIneqUs toyJac).map (fun r => (r.kind, r.src)) =
    [(0, 1), (0, 3), (0, 4), (1, 0), (2, 1), (2, 3), (2, 3)] := by decide +kernel
example : letI := ratOps toyFns; ineqZero toyIneqEnv toyIneqUs = [false, false, true, false, false] := by decide +kernel
example : letI := ratOps toyFns; ineqSigns toyIneqUs = [0, 0, 0, 0, -1] := by decide +kernel
-- a vector that dissolves 1 mmol of Calcite, precipitates 1 mmol of Dolomite back and 3 mmol of the absent phase is
-- feasible; one that dissolves 3 mmol of Calcite or precipitates 2 mmol of Dolomite is not
example : letI := ratOps toyFns;
    ((ineqRows toyIneqEnv toyIneqUs toyJac).filter (fun r => r.kind == 2)).all
      (fun r => decide (r.lhs (ineqZero toyIneqEnv toyIneqUs) [0, 1 / 1000, 0, -1 / 1000, -3 / 1000] ≤ r.rhs)) = true := by decide +kernel
example : letI := ratOps toyFns;
    ((ineqRows toyIneqEnv toyIneqUs toyJac).filter (fun r => r.kind == 2)).map
      (fun r => decide (r.lhs (ineqZero toyIneqEnv toyIneqUs) [0, 3 / 1000, 0, -2 / 1000, 0] ≤ r.rhs)) = [false, true, false] := by decide +kernel

end PhreeqcVerif.Assemblage
