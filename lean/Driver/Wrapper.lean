/-! `pmodel wrapper`: line-protocol driver (stub — replaced by the owner of this model). -/
namespace Driver.Wrapper

def run : IO Unit := IO.eprintln "pmodel wrapper: not implemented"

end Driver.Wrapper
