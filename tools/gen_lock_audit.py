#!/usr/bin/env python3
"""Translator for C06: lock-guard audit of the instance registry and of the shared qsort guard.

Reads /repo's current source and writes lean/PhreeqcVerif/Gen/LockAudit.lean:
  * `registrySites` — every access to `IPhreeqc::Instances` / `IPhreeqc::InstancesIndex` in src/ (comments and strings
    stripped; the static member declarations/definitions excluded), with whether it lies between
    `mutex_lock(&map_lock)` and `mutex_unlock(&map_lock)`; plus one site per `return` / function end reached while the
    lock is held (kind "exit-locked", never guarded);
  * `qsortSites` — every call of `qsort` in the *preprocessed* engine sources (g++ -E with the library's defines), with
    whether the call is immediately preceded by `pthread_mutex_lock(&qsort_lock);` and followed by the unlock
    (the `#define qsort` guard of thread.h); `cond` records that the guarded triple is the unbraced body of an
    if/else/for/while (information only);
  * `locksDefined` — thread.h defines both `map_lock` and `qsort_lock` with MUTEX_INITIALIZER.
Fails closed (raises) when the code shape is not recognised (no access found, no qsort found, unbalanced scan)."""
import re
import subprocess
import sys
from concurrent.futures import ThreadPoolExecutor
from pathlib import Path

sys.path.insert(0, str(Path(__file__).resolve().parent))
import vlib


def strip_c(src):
    """remove comments and the contents of string/char literals, keep line structure"""
    out = []
    i, n = 0, len(src)
    while i < n:
        c = src[i]
        if src.startswith("//", i):
            while i < n and src[i] != "\n":
                i += 1
        elif src.startswith("/*", i):
            j = src.find("*/", i + 2)
            j = n if j < 0 else j + 2
            out.append("\n" * src.count("\n", i, j))
            i = j
        elif c in "\"'":
            q = c
            out.append(q)
            i += 1
            while i < n and src[i] != q:
                if src[i] == "\\":
                    i += 1
                if i < n and src[i] == "\n":
                    out.append("\n")
                i += 1
            out.append(q)
            i += 1
        else:
            out.append(c)
            i += 1
    return "".join(out)


LOCK = r"(?:pthread_)?mutex_lock\s*\(\s*&\s*map_lock\s*\)"
UNLOCK = r"(?:pthread_)?mutex_unlock\s*\(\s*&\s*map_lock\s*\)"
DECL = re.compile(r"(static\s+[\w:<>,\s\*]+\s+|IPhreeqc::)(Instances|InstancesIndex)\s*(=\s*0\s*)?;")


def match_brace(s, i):
    d = 0
    while i < len(s):
        d += s[i] == "{"
        d -= s[i] == "}"
        i += 1
        if d == 0:
            return i
    return len(s)


def lock_aliases(src):
    """other spellings of taking / releasing map_lock defined in this file: a function whose whole body is the lock (or the
    unlock) call, and a guard class whose constructor locks and whose destructor unlocks (RAII). Returns
    (lock function names, unlock function names, guard class names, source with those definitions blanked out)"""
    locks, unlocks, guards = set(), set(), set()
    blank = lambda a, b, t: t[:a] + re.sub(r"[^\n]", " ", t[a:b]) + t[b:]
    for m in list(re.finditer(r"\b(?:struct|class)\s+(\w+)[^;{]*\{", src)):
        e = match_brace(src, m.end() - 1)
        body, n = src[m.end():e - 1], m.group(1)
        c = re.search(r"\b" + n + r"\s*\([^)]*\)\s*(?::[^{]*)?\{\s*" + LOCK + r"\s*;\s*\}", body)
        d = re.search(r"~\s*" + n + r"\s*\(\s*(?:void)?\s*\)\s*\{\s*" + UNLOCK + r"\s*;\s*\}", body)
        if c and d:
            guards.add(n)
            src = blank(m.start(), e, src)
    for m in list(re.finditer(r"\b([\w:]+)\s*\(\s*(?:void)?\s*\)\s*(?:const\s*)?\{\s*(" + LOCK + "|" + UNLOCK + r")\s*;\s*\}", src)):
        name = m.group(1).split("::")[-1]
        (locks if re.match(LOCK, m.group(2)) else unlocks).add(name)
        src = blank(m.start(), m.end(), src)
    return locks, unlocks, guards, src


def registry_sites(repo):
    sites = []
    files = [f for f in sorted((repo / "src").rglob("*")) if f.suffix in (".cpp", ".cxx", ".h", ".hpp", ".hxx", ".c")]
    texts = {}
    locks, unlocks, guards = set(), set(), set()
    for f in files:
        raw = f.read_text(errors="replace")
        if "Instances" not in raw and "map_lock" not in raw:
            continue
        src = strip_c(raw)
        l, u, g, src = lock_aliases(src)
        locks |= l
        unlocks |= u
        guards |= g
        texts[f] = src
    lock_re = "|".join([LOCK] + [r"\b" + n + r"\s*\(\s*\)" for n in sorted(locks)])
    unlock_re = "|".join([UNLOCK] + [r"\b" + n + r"\s*\(\s*\)" for n in sorted(unlocks)])
    guard_re = "|".join(r"\b" + n + r"\s+\w+\s*(?:\(\s*\)|\{\s*\})?\s*;" for n in sorted(guards)) or r"(?!x)x"
    tok = re.compile(f"(?P<lock>{lock_re})|(?P<unlock>{unlock_re})|(?P<guard>{guard_re})|(?P<acc>\\bInstancesIndex\\b|\\bInstances\\b)|(?P<ret>\\breturn\\b)|(?P<br>[{{}}])")
    import bisect
    for f, src in texts.items():
        if "Instances" not in src:
            continue
        # blank out the declarations / definitions of the two static members
        src = DECL.sub(lambda m: " " * len(m.group(0)), src)
        depth, locked, func = 0, False, "?"
        guard_depth = None          # depth of the block whose end releases a guard object
        starts, off = [], 0
        for l in src.split("\n"):
            starts.append(off)
            off += len(l) + 1
        line_of = lambda p: bisect.bisect_right(starts, p)
        rel = str(f.relative_to(repo))
        for m in tok.finditer(src):
            ln = line_of(m.start())
            k = m.lastgroup
            if k == "br" and m.group(0) == "{":
                if depth == 0:
                    # the signature is the text between the previous ';' or '}' and this brace
                    j = max(src.rfind(";", 0, m.start()), src.rfind("}", 0, m.start()))
                    sig = " ".join(src[j + 1:m.start()].split())
                    mm = re.search(r"([\w:~]+)\s*\([^()]*\)\s*(const)?\s*(:.*)?$", sig)
                    func = mm.group(1) if mm else (sig[-60:] or "?")
                depth += 1
            elif k == "br":
                depth -= 1
                if depth < 0:
                    raise RuntimeError(f"lock audit: unbalanced braces in {f}")
                if guard_depth is not None and depth < guard_depth:
                    locked, guard_depth = False, None
                if depth == 0 and locked:
                    sites.append((rel, ln, func, "exit-locked", False))
                    locked = False
            elif k == "lock":
                if locked:
                    sites.append((rel, ln, func, "double-lock", False))
                locked = True
            elif k == "guard":
                if locked:
                    sites.append((rel, ln, func, "double-lock", False))
                locked, guard_depth = True, depth
            elif k == "unlock":
                locked = False
            elif k == "ret":
                if locked and guard_depth is None:
                    sites.append((rel, ln, func, "exit-locked", False))
            else:
                if depth == 0:
                    # a use at file scope we do not understand: recorded as an unguarded site rather than aborting the audit
                    sites.append((rel, ln, "<file scope>", m.group(0), False))
                else:
                    sites.append((rel, ln, func, m.group(0), locked))
    if not any(s[3] in ("Instances", "InstancesIndex") for s in sites):
        raise RuntimeError("lock audit: no access to the instance registry found (code shape changed)")
    return sites


QCALL = re.compile(r"\bqsort\s*\(")


def match_paren(s, i):
    d = 0
    while i < len(s):
        if s[i] == "(":
            d += 1
        elif s[i] == ")":
            d -= 1
            if d == 0:
                return i
        i += 1
    return -1


def qsort_sites_file(repo, f):
    inc = [a.replace(str(vlib.REPO), str(repo)) for a in vlib.INC if not a.startswith("-I" + str(vlib.HARNESS))]
    r = subprocess.run(["g++", "-E", "-P", "-w", "-std=gnu++17"] + inc + [str(f)], capture_output=True, text=True)
    if r.returncode:
        raise RuntimeError(f"lock audit: cannot preprocess {f}: {r.stderr[-500:]}")
    src = strip_c(r.stdout)
    out = []
    for m in QCALL.finditer(src):
        pre = src[max(0, m.start() - 200):m.start()]
        if re.search(r"(extern\s+void|using\s*::|using\s+std::|std::)\s*$", pre):
            continue                                   # libc declaration / using-declaration, not a call
        e = match_paren(src, m.end() - 1)
        if e < 0:
            raise RuntimeError(f"lock audit: unbalanced qsort call in {f}")
        before = pre.rstrip()
        after = src[e + 1:e + 120].lstrip()
        lock = re.search(r"pthread_mutex_lock\s*\(\s*&\s*qsort_lock\s*\)\s*;$", before) is not None
        unlock = re.match(r";\s*pthread_mutex_unlock\s*\(\s*&\s*qsort_lock\s*\)", after) is not None
        cond = False
        if lock:
            b2 = re.sub(r"pthread_mutex_lock\s*\(\s*&\s*qsort_lock\s*\)\s*;$", "", before).rstrip()
            cond = b2.endswith(")") or b2.endswith("else")
        arg0 = " ".join(src[m.end():e].split())[:60].replace('"', "'")
        out.append((str(f.relative_to(repo)), arg0, lock and unlock, cond))
    return out


def qsort_sites(repo):
    files = []
    for f in sorted((repo / "src").rglob("*")):
        if f.suffix in (".cpp", ".cxx") and f.name not in ("class_main.cpp",):
            if QCALL.search(strip_c(f.read_text(errors="replace"))):
                files.append(f)
    with ThreadPoolExecutor(8) as ex:
        res = list(ex.map(lambda f: qsort_sites_file(repo, f), files))
    sites = [s for r in res for s in r]
    if not sites:
        raise RuntimeError("lock audit: no qsort call found in the engine (code shape changed)")
    return sites


def locks_defined(repo):
    t = strip_c((repo / "src" / "thread.h").read_text())
    return bool(re.search(r"mutex_t\s+map_lock\s*=\s*MUTEX_INITIALIZER", t)) and \
        bool(re.search(r"mutex_t\s+qsort_lock\s*=\s*MUTEX_INITIALIZER", t))


def lstr(s):
    return '"' + s.replace("\\", "\\\\").replace('"', '\\"') + '"'


def generate(ctx=None):
    repo = vlib.REPO
    reg = registry_sites(repo)
    qs = qsort_sites(repo)
    ld = locks_defined(repo)
    L = ["/-! GENERATED by tools/gen_lock_audit.py from /repo's current source — do not edit. -/",
         "namespace PhreeqcVerif.Gen.LockAudit", "",
         "structure RegSite where", "  file : String", "  line : Nat", "  func : String", "  what : String", "  guarded : Bool", "deriving Repr, DecidableEq", "",
         "structure QsortSite where", "  file : String", "  arg : String", "  guarded : Bool", "  cond : Bool", "deriving Repr, DecidableEq", "",
         "def registrySites : List RegSite := ["]
    L += [",\n".join(f"  ⟨{lstr(f)}, {ln}, {lstr(fn)}, {lstr(w)}, {'true' if g else 'false'}⟩" for f, ln, fn, w, g in reg)]
    L += ["]", "", "def qsortSites : List QsortSite := ["]
    L += [",\n".join(f"  ⟨{lstr(f)}, {lstr(a)}, {'true' if g else 'false'}, {'true' if c else 'false'}⟩" for f, a, g, c in qs)]
    L += ["]", "", f"def locksDefined : Bool := {'true' if ld else 'false'}", "", "end PhreeqcVerif.Gen.LockAudit", ""]
    text = "\n".join(L)
    out = vlib.LEAN / "PhreeqcVerif" / "Gen" / "LockAudit.lean"
    if not out.exists() or out.read_text() != text:
        out.write_text(text)
    return {"registry_sites": len(reg), "registry_unguarded": [s for s in reg if not s[4]],
            "qsort_sites": len(qs), "qsort_unguarded": [s for s in qs if not s[2]], "qsort_conditional": sum(1 for s in qs if s[3]),
            "locks_defined": ld}


if __name__ == "__main__":
    import json
    print(json.dumps(generate(), indent=1))
