import PhreeqcVerif.Lemmas.Thermo
namespace PhreeqcVerif.C01
open PhreeqcVerif PhreeqcVerif.Thermo PhreeqcVerif.Speciation

theorem kCalc_addScaled (f : TransFns Rat) (p q : LogK Rat) (c T P : Rat) :
    letI := ratOps f
    kCalc (p.addScaled c q) T P = kCalc p T P + c * kCalc q T P := by
  simp only [kCalc, LogK.addScaled, NumOps.lit, NumOps.ofRat, NumOps.log10, NumOps.ln, id]
  grind

theorem kCalc_linear (f : TransFns Rat) (p q : LogK Rat) (a b T P : Rat) :
    letI := ratOps f
    kCalc ((LogK.smul a p).add (LogK.smul b q)) T P = a * kCalc p T P + b * kCalc q T P := by
  simp only [kCalc, LogK.add, LogK.smul, NumOps.lit, NumOps.ofRat, NumOps.log10, NumOps.ln, id]
  grind

theorem kCalc_pressure_off (f : TransFns Rat) (p : LogK Rat) (T P : Rat) (hP : P ≤ pRef) :
    letI := ratOps f
    kCalc p T P = kCalc1atm p T := by
  simp only [kCalc, kCalc1atm, NumOps.lit, NumOps.ofRat, NumOps.log10, NumOps.ln, id]
  grind

theorem kCalc_reference (f : TransFns Rat) (k0 dh dv P : Rat) (hP : P ≤ pRef) :
    letI := ratOps f
    kCalc ⟨k0, dh, 0, 0, 0, 0, 0, 0, dv⟩ tRef P = k0 := by
  simp only [kCalc, NumOps.lit, NumOps.ofRat, NumOps.log10, NumOps.ln, id]
  grind

theorem vant_hoff (f : TransFns Rat) (k0 dh dv T : Rat) :
    letI := ratOps f
    kCalc1atm ⟨k0, dh, 0, 0, 0, 0, 0, 0, dv⟩ T = k0 - dh * (tRef - T) / (f.ln 10 * (T * rKJ) * tRef) := by
  simp only [kCalc1atm, NumOps.lit, NumOps.ofRat, NumOps.log10, NumOps.ln, id]
  grind

theorem dhToKJ_linear (f : TransFns Rat) (u : DHUnit) (a x : Rat) :
    letI := ratOps f
    dhToKJ u (a * x) = a * dhToKJ u x := by
  cases u <;> simp only [dhToKJ, NumOps.lit, NumOps.ofRat, id] <;> grind

theorem dhToKJ_kcal (f : TransFns Rat) (x : Rat) :
    letI := ratOps f
    dhToKJ .kcal x = x * (4184 / 1000) := by
  simp only [dhToKJ, NumOps.lit, NumOps.ofRat, id]

theorem dhToKJ_cal (f : TransFns Rat) (x : Rat) :
    letI := ratOps f
    dhToKJ .cal x = x * (4184 / 1000000) := by
  simp only [dhToKJ, NumOps.lit, NumOps.ofRat, id]; grind

theorem dhToKJ_J (f : TransFns Rat) (x : Rat) :
    letI := ratOps f
    dhToKJ .J x = x / 1000 := by
  simp only [dhToKJ, NumOps.lit, NumOps.ofRat, id]

theorem speciate_mass_action (f : TransFns Rat) (lk lg : Rat) (la : String → Rat) (body : List (String × Rat)) :
    letI := ratOps f
    speciateLm lk lg la body + lg = lk + evalBody la body := by
  simp only [speciateLm]; grind

theorem speciate_residual (f : TransFns Rat) (K : LogK Rat → Rat) (lg : Rat) (la : String → Rat) (e : Eqn Rat) :
    letI := ratOps f
    la e.head = speciateLm (K e.k) lg la e.body + lg → residual la K e = 0 := by
  simp only [speciateLm, residual]; grind

theorem iterate_sound (f : TransFns Rat) {σ : Type} (view : σ → GateCtx Rat × List (Unknown Rat)) (step : σ → σ)
    (fuel : Nat) (s s' : σ) :
    letI := ratOps f
    iterate view step fuel s = some s' → converged (view s').1 (view s').2 = true := by
  intro h
  induction fuel generalizing s with
  | zero =>
    simp only [iterate] at h
    split at h
    · cases h; assumption
    · cases h
  | succ n ih =>
    simp only [iterate] at h
    split at h
    · cases h; assumption
    · exact ih _ h

theorem gate_sound (f : TransFns Rat) {σ : Type} (view : σ → GateCtx Rat × List (Unknown Rat)) (step : σ → σ)
    (again : σ → Option σ) (itmax passes : Nat) (s s' : σ) :
    letI := ratOps f
    runModel view step again itmax passes s = .ok s' →
      converged (view s').1 (view s').2 = true ∧ checkResiduals (view s').1 (view s').2 = true := by
  intro h
  induction passes generalizing s with
  | zero => simp only [runModel] at h; cases h
  | succ n ih =>
    simp only [runModel] at h
    split at h
    · cases h
    · rename_i s1 hit
      split at h
      · rename_i hc
        split at h
        · cases h
          exact ⟨iterate_sound f view step itmax s _ hit, hc⟩
        · exact ih _ h
      · cases h

/-! ### 3. linear algebra of token lists -/

theorem evalBody_append (f : TransFns Rat) (v : String → Rat) (a b : List (String × Rat)) :
    letI := ratOps f; evalBody v (a ++ b) = evalBody v a + evalBody v b :=
  Speciation.evalBody_append f v a b

theorem evalBody_scaleBody (f : TransFns Rat) (v : String → Rat) (c : Rat) (b : List (String × Rat)) :
    letI := ratOps f; evalBody v (scaleBody c b) = c * evalBody v b :=
  Speciation.evalBody_scaleBody f v c b

theorem evalBody_removeName (f : TransFns Rat) (v : String → Rat) (n : String) (b : List (String × Rat)) :
    letI := ratOps f; evalBody v (removeName n b) + coefOf n b * v n = evalBody v b :=
  Speciation.evalBody_removeName f v n b

theorem evalBody_addTerm (f : TransFns Rat) (v : String → Rat) (n : String) (c : Rat) (b : List (String × Rat)) :
    letI := ratOps f; evalBody v (addTerm n c b) = evalBody v b + c * v n :=
  Speciation.evalBody_addTerm f v n c b

theorem evalBody_mergeInto (f : TransFns Rat) (v : String → Rat) (acc b : List (String × Rat)) :
    letI := ratOps f; evalBody v (mergeInto acc b) = evalBody v acc + evalBody v b :=
  Speciation.evalBody_mergeInto f v acc b

/-- `trxn_combine` does not change the value of the linear form, provided `drop` only removes exact zeros -/
theorem evalBody_normalise (f : TransFns Rat) (v : String → Rat) (drop : Rat → Bool)
    (hdrop : ∀ c, drop c = true → c = 0) (b : List (String × Rat)) :
    letI := ratOps f; evalBody v (normalise drop b) = evalBody v b :=
  Speciation.evalBody_normalise f v drop hdrop b

/-- eliminating species `n` through its defining equation `d` adds `coef(n)` times the residual of `d` -/
theorem residual_substOne (f : TransFns Rat) (la : String → Rat) (K : LogK Rat → Rat)
    (hK : letI := ratOps f; ∀ (p q : LogK Rat) (c : Rat), K (p.addScaled c q) = K p + c * K q)
    (n : String) (d e : Eqn Rat) (hd : d.head = n) :
    letI := ratOps f
    residual la K (substOne n d e) = residual la K e + coefOf n e.body * residual la K d :=
  Speciation.residual_substOne f la K hK n d e hd

/-- `rewrite_master_to_secondary`: the pivoted equation is `pm − (c1/c2)·pm0` -/
theorem residual_pivot (f : TransFns Rat) (la : String → Rat) (K : LogK Rat → Rat)
    (hK : letI := ratOps f; ∀ (p q : LogK Rat) (c : Rat), K (p.addScaled c q) = K p + c * K q)
    (p : String) (pm pm0 : Eqn Rat) :
    letI := ratOps f
    (pivot p pm pm0).head = pm.head ∧
    residual la K (pivot p pm pm0)
      = residual la K pm - (coefOf p pm.body / coefOf p pm0.body) * residual la K pm0 :=
  Speciation.residual_pivot f la K hK p pm pm0

/-! ### 4. rewriting to the masters in use preserves mass action -/

/-- main statement: for every fuel, every list, every `K` that is linear for `addScaled` (e.g. `kCalc · T P`,
`kCalc_addScaled`): the rewritten equation has the same head and the same residual -/
theorem rewrite_residual_eq (f : TransFns Rat) (drop : Rat → Bool) (inUse : String → Bool)
    (defs : String → Option (Eqn Rat)) (la : String → Rat) (K : LogK Rat → Rat)
    (hK : letI := ratOps f; ∀ (p q : LogK Rat) (c : Rat), K (p.addScaled c q) = K p + c * K q)
    (hdrop : ∀ c, drop c = true → c = 0)
    (hdefs : letI := ratOps f; ∀ n d, defs n = some d → d.head = n ∧ residual la K d = 0)
    (fuel : Nat) (e e' : Eqn Rat) :
    letI := ratOps f
    rewriteToMasters drop inUse defs fuel e = some e' →
      e'.head = e.head ∧ residual la K e' = residual la K e :=
  Speciation.rewrite_residual f drop inUse defs la K hK hdrop hdefs fuel e e'

theorem rewrite_mass_action_iff (f : TransFns Rat) (drop : Rat → Bool) (inUse : String → Bool)
    (defs : String → Option (Eqn Rat)) (la : String → Rat) (K : LogK Rat → Rat)
    (hK : letI := ratOps f; ∀ (p q : LogK Rat) (c : Rat), K (p.addScaled c q) = K p + c * K q)
    (hdrop : ∀ c, drop c = true → c = 0)
    (hdefs : letI := ratOps f; ∀ n d, defs n = some d → d.head = n ∧ residual la K d = 0)
    (fuel : Nat) (e e' : Eqn Rat) :
    letI := ratOps f
    rewriteToMasters drop inUse defs fuel e = some e' →
      (residual la K e' = 0 ↔ residual la K e = 0) := by
  intro h
  rw [(rewrite_residual_eq f drop inUse defs la K hK hdrop hdefs fuel e e' h).2]

/-- the special case `K := kCalc · T P` (any temperature, any pressure): the linearity hypothesis is `kCalc_addScaled` -/
theorem rewrite_mass_action_kCalc (f : TransFns Rat) (drop : Rat → Bool) (inUse : String → Bool)
    (defs : String → Option (Eqn Rat)) (la : String → Rat) (T P : Rat)
    (hdrop : ∀ c, drop c = true → c = 0)
    (hdefs : letI := ratOps f; ∀ n d, defs n = some d → d.head = n ∧ residual la (fun k => kCalc k T P) d = 0)
    (fuel : Nat) (e e' : Eqn Rat) :
    letI := ratOps f
    rewriteToMasters drop inUse defs fuel e = some e' →
      e'.head = e.head ∧ residual la (fun k => kCalc k T P) e' = residual la (fun k => kCalc k T P) e :=
  rewrite_residual_eq f drop inUse defs la _ (fun p q c => kCalc_addScaled f p q c T P) hdrop hdefs fuel e e'

theorem firstOut_none (inUse : String → Bool) (b : List (String × Rat)) :
    firstOut inUse b = none → ∀ p ∈ b, inUse p.1 = true :=
  Speciation.firstOut_none inUse b

/-- a successful rewrite mentions only masters in use -/
theorem rewrite_only_masters (f : TransFns Rat) (drop : Rat → Bool) (inUse : String → Bool)
    (defs : String → Option (Eqn Rat)) (fuel : Nat) (e e' : Eqn Rat) :
    letI := ratOps f
    rewriteToMasters drop inUse defs fuel e = some e' → ∀ p ∈ e'.body, inUse p.1 = true :=
  fun h => Speciation.firstOut_none inUse _ (Speciation.rewrite_firstOut f drop inUse defs fuel e e' h)

/-! ### 5. element and charge balance -/

/-- `w` = number of atoms of one element in (or charge of) each species. If every defining equation is balanced, the
rewritten right-hand side carries the same amount as the original one; hence balanced iff balanced. -/
theorem rewrite_preserves_balance (f : TransFns Rat) (drop : Rat → Bool) (inUse : String → Bool)
    (defs : String → Option (Eqn Rat)) (w : String → Rat)
    (hdrop : ∀ c, drop c = true → c = 0)
    (hdefs : letI := ratOps f; ∀ n d, defs n = some d → d.head = n ∧ evalBody w d.body = w d.head)
    (fuel : Nat) (e e' : Eqn Rat) :
    letI := ratOps f
    rewriteToMasters drop inUse defs fuel e = some e' →
      evalBody w e'.body = evalBody w e.body ∧ (evalBody w e'.body = w e'.head ↔ evalBody w e.body = w e.head) := by
  intro h
  have hh := rewrite_residual_eq f drop inUse defs w (fun _ => 0) (fun _ _ _ => by grind) hdrop
    (fun n d hd => by
      obtain ⟨h1, h2⟩ := hdefs n d hd
      refine ⟨h1, ?_⟩
      simp only [residual]; grind) fuel e e' h
  obtain ⟨h1, h2⟩ := hh
  simp only [residual] at h2
  rw [h1] at h2 ⊢
  constructor <;> grind

end PhreeqcVerif.C01
