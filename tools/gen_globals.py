#!/usr/bin/env python3
"""Translator for C06: writable process-global state of the library built from /repo's current source.

`nm -C --format=sysv` over build/lib/libIPhreeqc.a: every defined object symbol whose SECTION is writable at run time
(.bss* / .data* except .data.rel.ro* / thread-local / common), strong or weak — i.e. every file-scope variable, static class
member (of classes and class templates), inline variable and function-local static (of ordinary, inline and template
functions) that is not placed in read-only memory.
`std::__ioinit` (the iostream initialiser object each TU gets from <iostream>) is dropped. Also lists calls into libc
functions that keep hidden static state (undefined symbols of the archive).  Written to
lean/PhreeqcVerif/Gen/Globals.lean; Properties/C06.lean proves that every symbol is accounted for by the reviewed policy
of Model/GlobalsPolicy.lean."""
import re
import subprocess
import sys
from pathlib import Path

sys.path.insert(0, str(Path(__file__).resolve().parent))
import vlib

NONREENTRANT = {"strtok", "rand", "srand", "localtime", "gmtime", "asctime", "ctime", "setlocale", "tmpnam", "getenv",
                "putenv", "setenv", "unsetenv", "strerror", "drand48", "lrand48", "srand48", "readdir", "getpwnam", "ttyname"}


WRITABLE_SECTION = re.compile(r"^(\.bss|\.data|\.tbss|\.tdata|\.lbss|\.ldata|\*COM\*)")
READONLY_AFTER_RELOC = re.compile(r"^\.data\.rel\.ro")


def collect(lib):
    """every defined OBJECT symbol of the archive that lives in a section writable at run time: strong (B b D d C) and also
    weak / unique ones (V v W w u — function-local statics of inline functions and templates, static members of class
    templates, inline variables). `nm --format=sysv` gives the section of each symbol; `.data.rel.ro*` (vtables, typeinfo,
    const tables holding addresses) is read-only once the loader has relocated it and is left out, `.rodata*` likewise."""
    r = subprocess.run(["nm", "-C", "--format=sysv", str(lib)], capture_output=True, text=True)
    if r.returncode or not r.stdout.strip():
        raise RuntimeError("gen_globals: nm failed on " + str(lib) + ": " + r.stderr[-300:])
    obj = "?"
    syms, undef = set(), set()
    nobj = nweak = 0
    for line in r.stdout.splitlines():
        m = re.match(r"^Symbols from .*\[(\S+\.o)\]:$", line)
        if m:
            obj = m.group(1)
            nobj += 1
            continue
        f = [x.strip() for x in line.split("|")]
        if len(f) != 7 or f[0] == "Name":
            continue
        name, cls, typ, sec = f[0], f[2], f[3], f[6]
        if cls == "U":
            base = name.split("@")[0]
            if base in NONREENTRANT:
                undef.add((obj, base))
            continue
        if typ not in ("OBJECT", "TLS", "COMMON", "NOTYPE") or cls not in "BbDdCVvWwuGgSs":
            continue
        if not WRITABLE_SECTION.match(sec) or READONLY_AFTER_RELOC.match(sec):
            continue
        if name == "std::__ioinit":
            continue
        if cls in "VvWwu":
            nweak += 1
        name = re.sub(r"\[abi:cxx11\]", "", name)
        # function-local statics: keep "func(...)::name" but drop the parameter list for stability
        name = re.sub(r"\(.*\)(::)", r"()\1", name)
        if name.startswith("DW.ref."):
            name = "DW.ref.*"          # compiler-generated pointer to a personality routine / typeinfo (exception tables)
        syms.add((obj, name))
    if nobj < 40:
        raise RuntimeError(f"gen_globals: only {nobj} object files in the archive (build incomplete?)")
    if nweak == 0:
        raise RuntimeError("gen_globals: no weak object symbol seen at all (nm output format changed?)")
    return sorted(syms), sorted(undef)


INIT_ONLY = ["F_Re3", "temp_vopts", "vopts", "temp_keywords", "temp_keyword_names", "phreeqc_keywords", "phreeqc_keyword_names",
             "temp_tokens", "command_tokens", "iso_defaults", "Version"]
MUTATE_AFTER = re.compile(r"\s*(?:\[[^\]]*\]\s*)*(?:=(?!=)|\+=|-=|\*=|/=|\+\+|--|\.\s*(?:push_back|insert|erase|clear|resize|assign|swap|emplace\w*|append)\b|\[[^\]]*\]\s*\.\s*(?:assign|append|clear|swap)\b)")
MUTATE_BEFORE = re.compile(r"(?:\+\+|--|&)\s*(?:\w+::)*$")
DECL_PREFIX = re.compile(r"^[\s\w:<>,\*&]*[\w>\*&][\s\*&]+(?:\w+::)*$")


def init_only_facts(repo):
    """source reading that backs the reason "written only by its initialiser": for every table name, whether each of its
    definitions is const-qualified and how many other occurrences in src/ could modify it (assignment, increment, container
    mutation, address taken)"""
    import gen_lock_audit
    files = [f for f in sorted((repo / "src").rglob("*")) if f.suffix in (".cpp", ".cxx", ".h", ".hpp", ".hxx", ".c")]
    texts = {f: re.sub(r"^[ \t]*#[^\n]*(?:\\\n[^\n]*)*", lambda m: "\n" * m.group(0).count("\n"),
                       gen_lock_audit.strip_c(f.read_text(errors="replace")), flags=re.M) for f in files}
    out = []
    for name in INIT_ONLY:
        ndef = nconst = nmut = nuse = 0
        where = []
        for f, src in texts.items():
            if name == "Version" and f.name not in ("IPhreeqc.cpp", "IPhreeqc.hpp") and "IPhreeqc::Version" not in src:
                continue
            for m in re.finditer(r"\b" + name + r"\b", src):
                st = max(src.rfind(";", 0, m.start()), src.rfind("{", 0, m.start()), src.rfind("}", 0, m.start()), src.rfind(":\n", 0, m.start())) + 1
                prefix = src[st:m.start()]
                prefix = re.sub(r"^\s*(public|private|protected)\s*:", "", prefix)
                if DECL_PREFIX.match(prefix) and not re.search(r"\b(return|sizeof|delete|new|case|else|goto|throw)\b", prefix):
                    ndef += 1
                    nconst += bool(re.search(r"\bconst\b", prefix))
                    continue
                nuse += 1
                if MUTATE_AFTER.match(src, m.end()) or MUTATE_BEFORE.search(src[max(0, m.start() - 40):m.start()]):
                    nmut += 1
                    where.append(f"{f.relative_to(repo)}:{src.count(chr(10), 0, m.start()) + 1}")
        # ndef == 0: the table no longer exists under this name; the obligation asks for a definition only for tables that are
        # still among the writable symbols of the build
        out.append((name, ndef, nconst, nuse, nmut, where[:5]))
    return out


def lstr(s):
    return '"' + s.replace("\\", "\\\\").replace('"', '\\"') + '"'


def generate(ctx=None):
    lib = vlib.BUILD / "lib" / "libIPhreeqc.a"
    if ctx is not None:
        ctx.build_lib()
    if not lib.exists():
        raise RuntimeError("gen_globals: library not built")
    syms, undef = collect(lib)
    L = ["/-! GENERATED by tools/gen_globals.py from the library built from /repo's current source — do not edit. -/",
         "namespace PhreeqcVerif.Gen.Globals", "",
         "/-- (object file, demangled name, last `::` component of the name) of every symbol in a writable data section -/",
         "def writable : List (String × String × String) := ["]
    L += [",\n".join(f"  ({lstr(o)}, {lstr(n)}, {lstr(n.split('::')[-1])})" for o, n in syms)]
    L += ["]", "", "/-- calls into libc functions with hidden static state -/", "def nonReentrantCalls : List (String × String) := ["]
    L += [",\n".join(f"  ({lstr(o)}, {lstr(n)})" for o, n in undef)]
    facts = init_only_facts(vlib.REPO)
    L += ["]", "", "/-- tables the policy calls \"written only by their initialiser\": (name, declarations/definitions found in src/, how many",
          "of them are const-qualified, other occurrences, occurrences that could modify the object) -/",
          "def initOnly : List (String × Nat × Nat × Nat × Nat) := ["]
    L += [",\n".join(f"  ({lstr(n)}, {d}, {c}, {u}, {m})" for n, d, c, u, m, _ in facts)]
    L += ["]", "", "end PhreeqcVerif.Gen.Globals", ""]
    text = "\n".join(L)
    out = vlib.LEAN / "PhreeqcVerif" / "Gen" / "Globals.lean"
    if not out.exists() or out.read_text() != text:
        out.write_text(text)
    return {"writable": syms, "nonreentrant": undef, "init_only": facts}


if __name__ == "__main__":
    r = generate()
    for o, n in r["writable"]:
        print(o, n)
    print(r["nonreentrant"])
    for f in r["init_only"]:
        print("init-only", f)
