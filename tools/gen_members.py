"""Translator (C07): which data members of class Phreeqc / class IPhreeqc exist, which of them the reset path
(IPhreeqc::UnLoadDatabase -> Phreeqc::clean_up, init, do_initialize/initialize and their helpers) puts back to the
fresh value, and which of them the input readers write  ->  lean/PhreeqcVerif/Gen/Members.lean.

Source of truth: clang-14's JSON AST (`-Xclang -ast-dump=json -Xclang -ast-dump-filter=Phreeqc`) of every translation
unit of the library that defines Phreeqc:: methods, with the library's defines.  Per function the translator records
  * resets : member paths put to a value that does not depend on history: `p = e`, `p.clear()`, `p[i] = e` inside a loop
  * writes : member paths modified in any way (assignment to the member or to an element/sub-object of it, ++/--,
             compound assignment, non-const method call on it, address taken, passed by non-const reference)
  * calls  : Phreeqc methods called on `this`
A member path is `m` or, for a struct-typed member whose fields are accessed directly, `m.f` (e.g. `pr.punch`,
`last_model.force_prep`, `stag_data.count_stag`).  Writes through a pointer member (`s_h2o->lm = …`) are not writes of the
member.  The per-TU summaries are cached under build/ keyed by the hash of the TU, of every header and of this file, so
the AST is re-read exactly when the source changed.

Fails closed: unknown callee of a reset function, a reader the call graph no longer reaches, an unparsable TU -> the
generated file carries the offending names in `unknownResetCallees` / `translatorErrors`, and the Lean obligations
`no_unknown_reset_callees`, `translator_clean` break (protocol P)."""
import concurrent.futures
import hashlib
import json
import os
import re
import subprocess
from pathlib import Path

import vlib

CLANG = "clang++-14"
VERSION = "13"          # bump to invalidate the cache when the extraction logic changes

# ---------------------------------------------------------------------------------------------------- reviewed lists
# functions that make up the reset path of the engine.  Everything these functions call on `this` must be either in
# this list or in RESET_IGNORED (with the reason why its writes are not claimed as resets).
RESET_INIT = ["init", "initialize", "do_initialize", "save_init", "cvode_init", "pitzer_init", "sit_init"]
RESET_CLEAN = ["clean_up", "free_model_allocs", "free_tally_table", "free_cvode", "pitzer_clean_up", "sit_clean_up",
               "strings_map_clear", "basic_free"]
RESET_IGNORED = {
    # callee : why its member writes are not counted as resets
    "s_free": "frees one species object; the vector is cleared by clean_up itself",
    "master_free": "frees one master object",
    "unknown_free": "frees one unknown object",
    "phase_free": "frees one phase object",
    "inverse_free": "frees one inverse object",
    "rate_free": "frees the BASIC program of one rate",
    "calculate_value_free": "frees one calculate_value object",
    "free_check_null": "free() wrapper; result assigned by the caller",
    "PHRQ_free": "allocator", "PHRQ_malloc": "allocator", "PHRQ_calloc": "allocator", "PHRQ_realloc": "allocator",
    "malloc_error": "error exit",
    "space": "(re)allocates line buffers: line, line_save, max_line are assigned by init()",
    "string_hsave": "interns a string into strings_map (cleared by strings_map_clear)",
    "logk_store": "creates the built-in XconstantX entry in logk/logk_map (both cleared by clean_up)",
    "read_log_k_only": "parses a literal into the new logk entry",
    "logk_copy2orig": "copies log_k to log_k_original inside the new built-in logk entry (no member of class Phreeqc written)",
    "get_input_errors": "getter",
    "output_flush": "io",
    "error_msg": "io", "warning_msg": "io", "output_msg": "io", "sformatf": "formatting into sformatf_buffer (re-allocated by init)",
    "pitz_param_free": "unused helper",
    "unset_inverse": "cvode helper",
}
# members whose value never depends on input history or that every calculation overwrites before reading
# name -> reason (reviewed by hand; a new untouched member that is not listed here breaks `every_member_accounted`)


def _cmd(tu, flt="Phreeqc"):
    R = vlib.REPO
    return [CLANG, "-std=gnu++17", "-fsyntax-only", "-w", "-DSWIG_SHARED_OBJ", "-DUSE_PHRQ_ALLOC", "-D" + vlib.GUARD,
            f"-I{R}/src", f"-I{R}/src/phreeqcpp", f"-I{R}/src/phreeqcpp/common", f"-I{R}/src/phreeqcpp/PhreeqcKeywords",
            "-Xclang", "-ast-dump=json", "-Xclang", "-ast-dump-filter=" + flt, str(tu)]


# ---------------------------------------------------------------------------------------------------- AST walking
CONST_METHODS = {
    "size", "empty", "begin", "end", "rbegin", "rend", "cbegin", "cend", "find", "count", "c_str", "length", "str", "data",
    "lower_bound", "upper_bound", "compare", "substr", "at", "front", "back", "capacity", "max_size", "equal_range",
    "find_first_of", "find_first_not_of", "find_last_of", "rfind", "good", "eof", "fail", "is_open", "get", "key_comp",
}
CAST_KINDS = {"ImplicitCastExpr", "ParenExpr", "CStyleCastExpr", "CXXStaticCastExpr", "CXXReinterpretCastExpr",
              "CXXConstCastExpr", "MaterializeTemporaryExpr", "CXXBindTemporaryExpr", "ExprWithCleanups",
              "CXXFunctionalCastExpr", "ConstantExpr"}
LOOPS = {"ForStmt", "WhileStmt", "DoStmt", "CXXForRangeStmt"}


def strip(n):
    decay = False
    while n is not None and n.get("kind") in CAST_KINDS and n.get("inner"):
        if n.get("castKind") == "ArrayToPointerDecay":
            decay = True
        n = n["inner"][0]
    return n, decay


def is_method_member(n):
    return n.get("kind") == "MemberExpr" and n.get("type", {}).get("qualType", "").startswith("<bound member")


def root_path(n, owner_ptr=None):
    """(path, kind) of an lvalue-ish expression rooted in a data member of `this`; kind in whole/elem/part/deref"""
    n, _ = strip(n)
    if n is None:
        return None
    k = n.get("kind")
    if k == "MemberExpr":
        if is_method_member(n) or not n.get("inner"):
            return None
        base, _ = strip(n["inner"][0])
        if base is None:
            return None
        if base.get("kind") == "CXXThisExpr":
            return (n.get("name", "?"), "whole")
        r = root_path(base, owner_ptr)
        if r is None:
            return None
        bp, bk = r
        if n.get("isArrow"):
            if owner_ptr and bp == owner_ptr and bk == "whole":
                return ("E:" + n.get("name", "?"), "whole")
            return (bp, "deref")
        if bk == "whole" and bp.replace("E:", "").count(".") == 0:
            return (bp + "." + n.get("name", "?"), "whole")
        if bk == "whole":
            return (bp, "part")
        return (bp, bk if bk == "deref" else "part")
    if k == "ArraySubscriptExpr":
        b0 = n["inner"][0]
        base, decay = strip(b0)
        r = root_path(base, owner_ptr)
        if r is None:
            return None
        bp, bk = r
        if bk == "deref":
            return r
        if decay:
            return (bp, "elem" if bk == "whole" else "part")
        return (bp, "deref")
    if k == "CXXOperatorCallExpr":
        inner = n.get("inner", [])
        if len(inner) >= 2:
            callee, _ = strip(inner[0])
            nm = (callee or {}).get("referencedDecl", {}).get("name", "")
            if nm in ("operator[]", "operator*", "operator->"):
                r = root_path(inner[1], owner_ptr)
                if r is None:
                    return None
                bp, bk = r
                if bk == "deref":
                    return r
                if nm == "operator[]":
                    return (bp, "elem" if bk == "whole" else "part")
                return (bp, "part")
        return None
    if k == "CXXMemberCallExpr":
        callee, _ = strip(n["inner"][0])
        if callee and callee.get("kind") == "MemberExpr" and callee.get("inner"):
            obj, _ = strip(callee["inner"][0])
            if obj is not None and obj.get("kind") != "CXXThisExpr":
                r = root_path(obj, owner_ptr)
                if r is None:
                    return None
                bp, bk = r
                if callee.get("isArrow") and not (owner_ptr and bp == owner_ptr):
                    return (bp, "deref")
                # a getter returning a pointer/reference into the object: treat as part of it unless pointer-valued
                rt = n.get("type", {}).get("qualType", "")
                if rt.endswith("*"):
                    return (bp, "deref")
                return (bp, "part" if bk != "deref" else "deref")
        return None
    if k == "UnaryOperator" and n.get("opcode") == "*":
        r = root_path(n["inner"][0], owner_ptr)
        if r is None:
            return None
        return (r[0], "deref")
    if k == "ConditionalOperator":
        return None
    return None


class FnSummary:
    def __init__(self):
        self.resets = set()
        self.writes = set()
        self.calls = set()
        self.mcalls = set()      # "path.method" / "path->method": method calls on member objects
        self.frees = set()       # pointer members released: delete p / delete[] p / free_check_null(p) / PHRQ_free(p)
        self.allocs = set()      # pointer members assigned from new / PHRQ_malloc / PHRQ_calloc / PHRQ_realloc

    def note(self, r, how, in_loop):
        if r is None:
            return
        p, k = r
        if k == "deref":
            return
        self.writes.add(p)
        if how == "assign" and (k == "whole" or (k == "elem" and in_loop)):
            self.resets.add(p)
        if how == "clear" and k == "whole":
            self.resets.add(p)


def has_alloc(n):
    if not isinstance(n, dict):
        return False
    if n.get("kind") == "CXXNewExpr":
        return True
    if n.get("kind") == "CXXMemberCallExpr" and n.get("inner"):
        c, _ = strip(n["inner"][0])
        if c is not None and c.get("name") in ("PHRQ_malloc", "PHRQ_calloc", "PHRQ_realloc"):
            return True
    return any(has_alloc(c) for c in n.get("inner", []))


def walk(n, S, owner_ptr, in_loop=False):
    if not isinstance(n, dict):
        return
    k = n.get("kind")
    inner = n.get("inner", [])
    if k == "CXXDeleteExpr" and inner:
        r = root_path(inner[0], owner_ptr)
        if r and r[1] == "whole":
            S.frees.add(r[0])
    if k == "CXXMemberCallExpr" and inner:
        c0, _ = strip(inner[0])
        if c0 is not None and c0.get("name") in ("free_check_null", "PHRQ_free") and len(inner) > 1:
            r = root_path(inner[1], owner_ptr)
            if r and r[1] == "whole":
                S.frees.add(r[0])
    if k == "BinaryOperator" and n.get("opcode") == "=":
        # chained a = b = c : the inner assignment is visited by the recursion below
        S.note(root_path(inner[0], owner_ptr), "assign", in_loop)
        r0 = root_path(inner[0], owner_ptr)
        if r0 and r0[1] == "whole" and len(inner) > 1 and has_alloc(inner[1]):
            S.allocs.add(r0[0])
    elif k == "CompoundAssignOperator":
        S.note(root_path(inner[0], owner_ptr), "modify", in_loop)
    elif k == "UnaryOperator" and n.get("opcode") in ("++", "--"):
        S.note(root_path(inner[0], owner_ptr), "modify", in_loop)
    elif k == "UnaryOperator" and n.get("opcode") == "&":
        r = root_path(inner[0], owner_ptr)
        if r and r[1] != "deref":
            S.note(r, "modify", in_loop)
    elif k == "CXXOperatorCallExpr" and len(inner) >= 2:
        callee, _ = strip(inner[0])
        nm = (callee or {}).get("referencedDecl", {}).get("name", "")
        if nm == "operator=":
            S.note(root_path(inner[1], owner_ptr), "assign", in_loop)
        elif nm in ("operator+=", "operator-=", "operator<<", "operator>>", "operator++", "operator--", "operator*=", "operator/="):
            S.note(root_path(inner[1], owner_ptr), "modify", in_loop)
            if nm == "operator>>" and len(inner) >= 3:
                S.note(root_path(inner[2], owner_ptr), "modify", in_loop)
    elif k == "CXXMemberCallExpr" and inner:
        callee, _ = strip(inner[0])
        if callee and callee.get("kind") == "MemberExpr" and callee.get("inner"):
            obj, _ = strip(callee["inner"][0])
            meth = callee.get("name", "")
            if obj is not None and obj.get("kind") == "CXXThisExpr":
                S.calls.add(meth)
            elif obj is not None:
                r = root_path(obj, owner_ptr)
                if r and r[1] == "whole" and not (owner_ptr and r[0] == owner_ptr):
                    S.mcalls.add(r[0] + ("->" if callee.get("isArrow") else ".") + meth)
                if r and r[1] != "deref" and not callee.get("isArrow"):
                    if owner_ptr and r == (owner_ptr, "whole"):
                        pass
                    elif meth == "clear":
                        S.note(r, "clear", in_loop)
                    elif meth not in CONST_METHODS and not meth.startswith("Get_") and not meth.startswith("get_"):
                        S.note(r, "modify", in_loop)
                elif r and callee.get("isArrow") and owner_ptr and r == (owner_ptr, "whole"):
                    S.calls.add("E:" + meth)
        # arguments bound to non-const reference parameters
        ptypes = n.get("_ptypes")
    elif k in ("CallExpr",) and inner:
        pass
    # reference binding of arguments: any call whose callee type shows a non-const T& parameter at that position
    if k in ("CallExpr", "CXXMemberCallExpr", "CXXConstructExpr") and inner:
        callee = inner[0]
        fn_t = None
        c, _ = strip(callee)
        args = inner[1:] if k != "CXXConstructExpr" else inner
        if k != "CXXConstructExpr":
            if c is not None and c.get("kind") == "DeclRefExpr":
                fn_t = c.get("type", {}).get("qualType") or c.get("referencedDecl", {}).get("type", {}).get("qualType")
            elif c is not None and c.get("kind") == "MemberExpr":
                fn_t = n.get("_callee_type")
        if fn_t and "(" in fn_t:
            ps = split_params(fn_t[fn_t.index("(") + 1:fn_t.rindex(")")])
            for a, pt in zip(args, ps):
                if pt.endswith("&") and not pt.startswith("const "):
                    r = root_path(a, owner_ptr)
                    if r and r[1] != "deref":
                        S.note(r, "modify", in_loop)
    loop = in_loop or k in LOOPS
    for c in inner:
        walk(c, S, owner_ptr, loop)


def collect_types(n, types, owner_ptr):
    """qualType of every member path accessed anywhere (reads included)"""
    if not isinstance(n, dict):
        return
    if n.get("kind") == "MemberExpr" and not is_method_member(n):
        r = root_path(n, owner_ptr)
        if r and r[1] == "whole":
            types.setdefault(r[0], n.get("type", {}).get("qualType", ""))
    for c in n.get("inner", []):
        collect_types(c, types, owner_ptr)


CONTROL = {"IfStmt", "ForStmt", "WhileStmt", "DoStmt", "SwitchStmt", "CXXForRangeStmt", "CXXTryStmt", "LabelStmt", "GotoStmt", "CompoundStmt"}
PROLOGUE = {"read_input": "check_line"}     # resets at the top of a function, before its first call of the named method


def calls_method(n, meth):
    if not isinstance(n, dict):
        return False
    if n.get("kind") == "CXXMemberCallExpr" and n.get("inner"):
        c, _ = strip(n["inner"][0])
        if c is not None and c.get("kind") == "MemberExpr" and c.get("name") == meth:
            return True
    return any(calls_method(c, meth) for c in n.get("inner", []))


def split_params(s):
    out, depth, cur = [], 0, ""
    for ch in s:
        if ch == "," and depth == 0:
            out.append(cur.strip())
            cur = ""
        else:
            depth += ch in "(<["
            depth -= ch in ")>]"
            cur += ch
    if cur.strip():
        out.append(cur.strip())
    return out


def annotate_member_call_types(node, method_types):
    """attach the callee's function type to CXXMemberCallExpr nodes (needed for by-reference arguments)"""
    if not isinstance(node, dict):
        return
    if node.get("kind") == "CXXMemberCallExpr" and node.get("inner"):
        c, _ = strip(node["inner"][0])
        if c is not None and c.get("kind") == "MemberExpr":
            t = method_types.get(c.get("referencedMemberDecl"))
            if t:
                node["_callee_type"] = t
    for c in node.get("inner", []):
        annotate_member_call_types(c, method_types)


def parse_objects(txt):
    dec = json.JSONDecoder()
    i, n = 0, len(txt)
    while i < n:
        while i < n and txt[i].isspace():
            i += 1
        if i >= n:
            break
        o, i = dec.raw_decode(txt, i)
        yield o


def summarize_tu(tu, cls, owner_ptr=None):
    """returns dict(fields=[(name,type,static?)] or None, methods={name: {resets,writes,calls,file,line}}, ctor_inits=[...])"""
    r = subprocess.run(_cmd(tu, "PHRQ_io" if cls == "PHRQ_io" else "Phreeqc"), capture_output=True, text=True)
    if r.returncode != 0:
        raise RuntimeError(f"clang failed on {tu}: {r.stderr[-500:]}")
    fields, bases = None, []
    method_types = {}
    defs = []
    cls_ids = set()
    objs = list(parse_objects(r.stdout))
    for o in objs:
        if o.get("kind") == "CXXRecordDecl" and o.get("name") == cls and o.get("completeDefinition"):
            cls_ids.add(o["id"])
            fl = []
            for m in o.get("inner", []):
                if m.get("kind") == "FieldDecl":
                    fl.append((m["name"], m.get("type", {}).get("qualType", ""), m.get("loc", {}).get("line", 0)))
                elif m.get("kind") in ("CXXMethodDecl", "CXXConstructorDecl", "CXXDestructorDecl"):
                    method_types[m["id"]] = m.get("type", {}).get("qualType", "")
                    if any(x.get("kind") == "CompoundStmt" for x in m.get("inner", [])):
                        defs.append(m)
            fields = fl
            bases = [b.get("type", {}).get("qualType", "") for b in o.get("bases", [])]
    for o in objs:
        if o.get("kind") in ("CXXMethodDecl", "CXXConstructorDecl", "CXXDestructorDecl") and o.get("parentDeclContextId") in cls_ids:
            if any(x.get("kind") == "CompoundStmt" for x in o.get("inner", [])):
                defs.append(o)
    methods = {}
    types = {}
    for d in defs:
        collect_types(d, types, owner_ptr)
        annotate_member_call_types(d, method_types)
        S = FnSummary()
        inits = []
        prologue = None
        top = None
        for x in d.get("inner", []):
            if x.get("kind") == "CXXCtorInitializer":
                nm = x.get("anyInit", {}).get("name")
                if nm:
                    S.resets.add(nm)
                    S.writes.add(nm)
                    inits.append(nm)
                for c in x.get("inner", []):
                    walk(c, S, owner_ptr)
            elif x.get("kind") == "CompoundStmt":
                walk(x, S, owner_ptr)
                T = FnSummary()
                for st in x.get("inner", []):
                    if st.get("kind") not in CONTROL:
                        walk(st, T, owner_ptr)
                top = dict(resets=sorted(T.resets), mcalls=sorted(T.mcalls))
                if d.get("name") in PROLOGUE:
                    P = FnSummary()
                    for st in x.get("inner", []):
                        if calls_method(st, PROLOGUE[d.get("name")]):
                            break
                        walk(st, P, owner_ptr)
                    prologue = dict(resets=sorted(P.resets), mcalls=sorted(P.mcalls))
        name = d.get("name", "?")
        if d.get("kind") == "CXXConstructorDecl":
            nparam = sum(1 for x in d.get("inner", []) if x.get("kind") == "ParmVarDecl")
            ptxt = d.get("type", {}).get("qualType", "")
            name = "<ctor-copy>" if ("const " + cls + " &") in ptxt else "<ctor>"
        if d.get("kind") == "CXXDestructorDecl":
            name = "<dtor>"
        loc = d.get("loc", {})
        e = methods.setdefault(name, dict(resets=set(), writes=set(), calls=set(), mcalls=set(), frees=set(), allocs=set(), where=[]))
        e["frees"] |= S.frees
        e["allocs"] |= S.allocs
        e["resets"] |= S.resets
        e["writes"] |= S.writes
        e["calls"] |= S.calls
        e["mcalls"] |= S.mcalls
        if prologue:
            e["prologue"] = prologue
        if top:
            e.setdefault("top_resets", set()).update(top["resets"])
            e.setdefault("top_mcalls", set()).update(top["mcalls"])
        e["where"].append(f"{Path(loc.get('file', str(tu))).name}:{loc.get('line', d.get('range', {}).get('begin', {}).get('line', 0))}")
    return dict(fields=fields, bases=bases, types=types,
                methods={k: dict(resets=sorted(v["resets"]), writes=sorted(v["writes"]), calls=sorted(v["calls"]),
                                 mcalls=sorted(v["mcalls"]), where=v["where"], prologue=v.get("prologue"),
                                 frees=sorted(v["frees"]), allocs=sorted(v["allocs"]),
                                 top_resets=sorted(v.get("top_resets", [])), top_mcalls=sorted(v.get("top_mcalls", [])))
                         for k, v in methods.items()})


def header_hash():
    h = hashlib.sha1()
    src = vlib.REPO / "src"
    for f in sorted(list(src.glob("*.h")) + list(src.glob("*.hpp")) + list(src.glob("*.hxx")) + list(src.glob("phreeqcpp/**/*.h"))
                    + list(src.glob("phreeqcpp/**/*.hxx")) + list(src.glob("phreeqcpp/**/*.hpp"))):
        h.update(f.name.encode())
        h.update(f.read_bytes())
    h.update(Path(__file__).read_bytes())
    h.update(VERSION.encode())
    return h.hexdigest()


def _one(args):
    tu, cls, owner, hh, cdir = args
    key = hashlib.sha1((hh + cls + str(tu)).encode() + Path(tu).read_bytes()).hexdigest()
    cf = Path(cdir) / f"{Path(tu).name}.{cls}.{key[:16]}.json"
    if cf.exists():
        return str(tu), json.loads(cf.read_text()), True
    s, last = None, None
    for attempt in range(4):                 # clang is occasionally killed on a heavily loaded machine: retry before failing closed
        try:
            s = summarize_tu(tu, cls, owner)
            break
        except Exception as e:
            last = e
            import time
            time.sleep(2 + 3 * attempt)
    if s is None:
        raise last
    for old in Path(cdir).glob(f"{Path(tu).name}.{cls}.*.json"):
        old.unlink()
    cf.write_text(json.dumps(s))
    return str(tu), s, False


def engine_tus():
    d = vlib.REPO / "src" / "phreeqcpp"
    skip = {"class_main.cpp", "cl1mp.cpp", "ChartHandler.cpp", "ChartObject.cpp", "CurveObject.cpp"}
    out = []
    for f in sorted(list(d.glob("*.cpp")) + list(d.glob("*.cxx"))):
        if f.name in skip:
            continue
        if "Phreeqc::" in f.read_text(errors="replace"):
            out.append(f)
    return out


def collect(ctx=None):
    cdir = vlib.BUILD / "c07_ast"
    cdir.mkdir(parents=True, exist_ok=True)
    hh = header_hash()
    jobs = [(str(t), "Phreeqc", None, hh, str(cdir)) for t in engine_tus()]
    jobs.append((str(vlib.REPO / "src" / "IPhreeqc.cpp"), "IPhreeqc", "PhreeqcPtr", hh, str(cdir)))
    jobs.append((str(vlib.REPO / "src" / "phreeqcpp" / "common" / "PHRQ_io.cpp"), "PHRQ_io", None, hh, str(cdir)))
    res, errors, cached = {}, [], 0
    with concurrent.futures.ThreadPoolExecutor(max_workers=min(12, vlib.NCPU)) as ex:
        futs = {ex.submit(_one, j): j for j in jobs}
        for f in concurrent.futures.as_completed(futs):
            j = futs[f]
            try:
                tu, s, hit = f.result()
                res[(tu, j[1])] = s
                cached += hit
            except Exception as e:                       # fail closed: recorded, breaks `translator_clean`
                errors.append(f"{Path(j[0]).name}: {e}"[:300])
    return res, errors, cached


# ---------------------------------------------------------------------------------------------------- merged view
def merged(res, cls):
    fields, types, M = None, {}, {}
    for (tu, c), s in sorted(res.items()):
        if c != cls:
            continue
        if s["fields"] and fields is None:
            fields = [tuple(f) for f in s["fields"]]
        for k, v in s["types"].items():
            types.setdefault(k, v)
        for k, v in s["methods"].items():
            e = M.setdefault(k, dict(resets=set(), writes=set(), calls=set(), mcalls=set(), top_resets=set(), top_mcalls=set(), frees=set(),
                                     allocs=set(), where=[]))
            for q in ("resets", "writes", "calls", "mcalls", "top_resets", "top_mcalls", "frees", "allocs"):
                e[q] |= set(v.get(q) or [])
            e["where"] += v["where"]
            if v.get("prologue"):
                e["prologue"] = v["prologue"]
    return fields, types, M


# ---------------------------------------------------------------------------------------------------- C++ dump code
ENUMS = {"cxxSurface::DIFFUSE_LAYER_TYPE", "cxxSurface::SURFACE_TYPE", "cxxGasPhase::GP_TYPE", "Keywords::KEYWORDS"}
INTS = {"int", "bool", "size_t", "unsigned long", "long", "unsigned int", "short", "char", "unsigned char", "long long"}
REALS = {"double", "LDBLE", "realtype", "float"}
NO_DUMP = {"status_timer": "clock() at init time", "s_pTail": "allocator list head"}


def dump_stmt(path, t):
    """C++ statement printing member `path` (type t) of Phreeqc* e as  `E <tag> <path> <value>`; None when not dumpable"""
    x = "e->" + path
    head = f'o << "E " << tag << " {path} " << '
    t = t.replace("const ", "").strip()
    if path in NO_DUMP:
        return None
    if t in INTS or t in ENUMS or t == "clock_t":
        return head + f"(long long)({x}) << \"\\n\";"
    if t in REALS:
        return head + f"hx::hexd((double)({x})) << \"\\n\";"
    if t == "std::string":
        return head + f"hx::hex({x}) << \"\\n\";"
    m = re.match(r"(.+)\[(\d+)\]$", t)
    if m and (m.group(1).strip() in INTS or m.group(1).strip() in REALS):
        n = int(m.group(2))
        if m.group(1).strip() in REALS:
            return head + f'"";' + f" for (int i_ = 0; i_ < {n}; ++i_) o << hx::hexd((double){x}[i_]) << \",\"; o << \"\\n\";"
        return head + f'"";' + f" for (int i_ = 0; i_ < {n}; ++i_) o << (long long){x}[i_] << \",\"; o << \"\\n\";"
    if t.endswith("*") or "(*)" in t or t in ("N_Vector", "M_Env"):
        return head + f"(({x}) != 0 ? 1 : 0) << \"\\n\";"
    m = re.match(r"std::(vector|map|set|list)<(.*)>$", t)
    if m:
        inner = m.group(2).strip()
        if m.group(1) == "vector" and (inner in INTS - {"bool"} or inner in REALS or inner == "std::string"):
            conv = "(long long)" if inner in INTS else ("hx::hexd" if inner in REALS else "hx::hex")
            return (head + f"{x}.size() << \":\"; for (size_t i_ = 0; i_ < {x}.size() && i_ < 64; ++i_) o << {conv}({x}[i_]) << \",\"; "
                    f"o << \"\\n\";")
        return head + f"{x}.size() << \"\\n\";"
    return None


EXTRA_DUMP = r'''
  { cxxUse& u = e->use; o << "E " << tag << " use " << u.Get_solution_in() << u.Get_pp_assemblage_in() << u.Get_mix_in() << u.Get_reaction_in()
      << u.Get_exchange_in() << u.Get_kinetics_in() << u.Get_surface_in() << u.Get_pressure_in() << u.Get_temperature_in() << u.Get_gas_phase_in()
      << u.Get_inverse_in() << u.Get_ss_assemblage_in() << u.Get_advect_in() << u.Get_trans_in() << " " << u.Get_n_solution_user() << ","
      << u.Get_n_pp_assemblage_user() << "," << u.Get_n_mix_user() << "," << u.Get_n_reaction_user() << "," << u.Get_n_exchange_user() << ","
      << u.Get_n_kinetics_user() << "," << u.Get_n_surface_user() << "," << u.Get_n_gas_phase_user() << "," << u.Get_n_ss_assemblage_user() << "\n"; }
  { dumper& d = e->dump_info; o << "E " << tag << " dump_info " << d.Get_bool_any() << d.Get_append() << d.Get_on() << d.Get_bool_solution()
      << d.Get_bool_pp_assemblage() << d.Get_bool_exchange() << d.Get_bool_surface() << d.Get_bool_ss_assemblage() << d.Get_bool_gas_phase()
      << d.Get_bool_kinetics() << d.Get_bool_mix() << d.Get_bool_reaction() << d.Get_bool_temperature() << d.Get_bool_pressure()
      << " " << d.Get_solution().size() << "\n";
    o << "E " << tag << " dump_info.file_name " << hx::hex(d.Get_file_name()) << "\n"; }
  { StorageBinList& d = e->delete_info; o << "E " << tag << " delete_info " << d.Get_solution().Get_defined() << d.Get_pp_assemblage().Get_defined()
      << d.Get_exchange().Get_defined() << d.Get_surface().Get_defined() << d.Get_ss_assemblage().Get_defined() << d.Get_gas_phase().Get_defined()
      << d.Get_kinetics().Get_defined() << d.Get_mix().Get_defined() << d.Get_reaction().Get_defined() << d.Get_temperature().Get_defined()
      << d.Get_pressure().Get_defined() << d.Get_cell().Get_defined() << " " << d.Get_solution().Get_numbers().size() << "\n"; }
  { runner& d = e->run_info; o << "E " << tag << " run_info " << d.Get_run_cells() << d.Get_cells().Get_defined() << " " << d.Get_cells().Get_numbers().size()
      << " " << hx::hexd(d.Get_time_step()) << " " << hx::hexd(d.Get_start_time()) << "\n"; }
'''


def write_if_changed(path, text):
    path = Path(path)
    path.parent.mkdir(parents=True, exist_ok=True)
    if not path.exists() or path.read_text() != text:
        path.write_text(text)
        return True
    return False


def gen_dump_header(fields, types):
    lines = ["// generated by tools/gen_members.py from the clang AST of class Phreeqc -- do not edit",
             "void TestIPhreeqc::estate(IPhreeqc* p, const std::string& tag, std::ostream& o) {", "  Phreeqc* e = p->PhreeqcPtr;"]
    dumped, skipped = [], []
    paths = [(n, t) for n, t, _ in fields] + sorted((k, v) for k, v in types.items() if "." in k)
    for n, t in paths:
        st = dump_stmt(n, t)
        if st:
            lines.append("  " + st)
            dumped.append(n)
        else:
            skipped.append(n)
    lines.append(EXTRA_DUMP)
    lines.append("}")
    gdir = vlib.BUILD / "c07gen"
    changed = write_if_changed(gdir / "c07_members_gen.hpp", "\n".join(lines) + "\n")
    if changed:
        exe = vlib.BUILD / "ph_reset-lib"
        if exe.exists():
            exe.unlink()
    return dumped, skipped


# ---------------------------------------------------------------------------------------------------- classification
# The reviewed lists (healed, scratch, fileNames, ioHealed, wrapperClass) live in lean/PhreeqcVerif/Model/ResetPolicy.lean;
# they are parsed here so that the Python side (reporting, dynamic checks) and the Lean obligations use one text.
def policy():
    src = (vlib.LEAN / "PhreeqcVerif" / "Model" / "ResetPolicy.lean").read_text()
    out = {}
    for m in re.finditer(r"^def (\w+) : List \(String × String\) :=\n(.*?)(?=^\S|\Z)", src, re.M | re.S):
        out[m.group(1)] = re.findall(r'\("((?:[^"\\]|\\.)*)",\s*"((?:[^"\\]|\\.)*)"\)', m.group(2))
    for k in ("healed", "scratch", "fileNames", "ioHealed", "wrapperClass", "healedBy", "scratchWriter", "ioHealedBy", "freedElsewhere"):
        if k not in out or (not out[k] and k not in ("scratchWriter", "ioHealedBy", "healedBy", "freedElsewhere")):
            raise RuntimeError(f"ResetPolicy.lean: list {k} not found")
    return out


# known-finding keys -> members they cover (a `finding: property=C07 key=<key>` line in known_findings.txt puts them in knownUnreset)
FINDING_KEYS = {
    "unreset-delete-info": ["delete_info"],
    "unreset-unnumbered-solutions": ["unnumbered_solutions"],
    "unreset-caches": ["gfw_map", "rates_map"],
    "unreset-io-flags": ["io.punch_on", "io.dump_on"],
}


def lean_str(s):
    return '"' + s.replace("\\", "\\\\").replace('"', '\\"') + '"'


def nat_list(xs, per=24):
    xs = list(xs)
    rows = [", ".join(str(x) for x in xs[i:i + per]) for i in range(0, len(xs), per)]
    return "[" + ",\n   ".join(rows) + "]"


def str_list(xs, per=6):
    xs = list(xs)
    rows = [", ".join(lean_str(x) for x in xs[i:i + per]) for i in range(0, len(xs), per)]
    return "[" + ",\n   ".join(rows) + "]"


def known_keys():
    keys = set()
    if vlib.KNOWN.exists():
        for line in vlib.KNOWN.read_text().splitlines():
            m = re.match(r"finding:\s+property=C07\s+key=(\S+)", line)
            if m:
                keys.add(m.group(1))
    return keys


def reach(M, start):
    seen, st = set(), list(start)
    while st:
        n = st.pop()
        if n in seen or n not in M:
            continue
        seen.add(n)
        st += [c for c in M[n]["calls"] if not c.startswith("E:")]
    return seen


SUMKEYS = ("resets", "writes", "calls", "mcalls", "frees", "allocs", "top_resets", "top_mcalls")


def inlined(M, fn, stop=()):
    """summary of method `fn` with the bodies of the helpers of the same class it calls inlined (transitively, not into
    the functions named in `stop`); calls into other objects (E:…) stay calls.  A refactoring that moves statements into a
    private helper therefore leaves the facts unchanged."""
    out = {k: set() for k in SUMKEYS}
    seen, st = set(), [fn]
    while st:
        n = st.pop()
        if n in seen or n not in M:
            continue
        seen.add(n)
        for k in SUMKEYS:
            out[k] |= set(M[n].get(k) or [])
        st += [c for c in M[n]["calls"] if not c.startswith("E:") and c not in stop]
    out["inlined"] = sorted(seen - {fn})
    return out


def analyse(res, errors):
    fields, types, M = merged(res, "Phreeqc")
    wf, wt, WM = merged(res, "IPhreeqc")
    iof, iot, IOM = merged(res, "PHRQ_io")
    errs = list(errors)
    if not fields:
        errs.append("class Phreeqc not found in the AST")
        fields = []
    if not wf:
        errs.append("class IPhreeqc not found in the AST")
        wf = []
    if not iof:
        errs.append("class PHRQ_io not found in the AST")
        iof = []
    top = [f[0] for f in fields]
    subs = sorted(k for k in types if "." in k and k.split(".")[0] in top)
    names = top + subs
    idx = {n: i for i, n in enumerate(names)}
    parent = [(idx[s], idx[s.split(".")[0]]) for s in subs]

    def ids(paths):
        return sorted({idx[p] for p in paths if p in idx})

    unknown, auto_followed = [], []
    A, C = set(), set()
    allowed = set(RESET_INIT + RESET_CLEAN)
    for grp, acc in ((RESET_INIT, A), (RESET_CLEAN, C)):
        for fn in grp:
            if fn not in M:
                unknown.append(f"{fn}: reset function not found")
                continue
            acc |= M[fn]["resets"]
            for c in M[fn]["calls"]:
                if c in allowed or c in RESET_IGNORED:
                    continue
                if c in M:
                    # a helper of the class that is not in the reviewed lists: its own reset-form statements are read one level deep
                    # (counting fewer resets can only break an obligation, never satisfy one)
                    acc |= M[c]["resets"]
                    auto_followed.append(f"{fn} -> {c}")
                else:
                    unknown.append(f"{fn} -> {c}")
    # UnLoadDatabase: engine members it resets itself
    U = set()
    un = inlined(WM, "UnLoadDatabase") if "UnLoadDatabase" in WM else None
    wrapper = {}
    if not un:
        errs.append("IPhreeqc::UnLoadDatabase not found")
        un = dict(resets=set(), writes=set(), calls=set(), mcalls=set())
    for must in ("E:clean_up", "E:init", "E:do_initialize"):
        if must not in un["calls"]:
            unknown.append(f"UnLoadDatabase no longer calls {must[2:]}")
    U |= {p[2:] for p in un["resets"] if p.startswith("E:")}
    if {"E:dump_info.SetAll", "E:dump_info.Set_append", "E:dump_info.Set_on"} <= un["mcalls"]:
        U.add("dump_info")
    # per-simulation prologue of read_input
    S = set()
    pro = (M.get("read_input") or {}).get("prologue")
    if not pro:
        errs.append("read_input prologue not recognised")
        pro = dict(resets=[], mcalls=[])
    S |= set(pro["resets"])
    if "use.init" in pro["mcalls"]:
        S.add("use")
    # readers
    R = reach(M, ["read_input"])
    if len(R) < 100 or not any(r.startswith("read_") for r in R):
        errs.append(f"reader call graph too small ({len(R)} functions)")
    Wset = set()
    for fn in R:
        Wset |= M[fn]["writes"]
    # PHRQ_io flags set by readers / reset by the load path
    def io_flags(mcalls, calls=()):
        out = set()
        for m in list(mcalls) + list(calls):
            mm = re.match(r"(?:phrq_io->)?Set_(\w+)_on$", m)
            if mm:
                out.add("io." + mm.group(1) + "_on")
        return out
    Wio = set()
    for fn in R:
        Wio |= io_flags(M[fn]["mcalls"])
    Sio = io_flags(pro["mcalls"])
    Uio = io_flags([], un["calls"])
    # wrapper
    wnames = [f[0] for f in wf] + ["io." + f[0] for f in iof]
    w_unload = set(un["resets"]) | {m.split("->")[0] for m in un["mcalls"] if m.endswith("->Clear")}
    w_unload |= {p for h in un.get("inlined", []) for p in WM[h]["writes"] if h == "ClearAccumulatedLines"}   # erase() is not a reset form
    w_unload = {("io." + p if p in [f[0] for f in iof] else p) for p in w_unload if not p.startswith("E:")} | Uio
    w_unload_writes = {("io." + p if p in [f[0] for f in iof] else p) for p in un["writes"] if not p.startswith("E:")} | w_unload
    percall = set()
    for fn in ("check_database", "update_errors", "close_output_files"):
        if fn not in WM:
            errs.append(f"IPhreeqc::{fn} not found")
            continue
        sm = inlined(WM, fn)
        percall |= sm["resets"] | sm["writes"]
    percall = {("io." + p if p in [f[0] for f in iof] else p) for p in percall if not p.startswith("E:")}
    # shape of the load path (facts over bodies with helpers inlined; robust against renaming locals / extracting helpers)
    shape = []
    stop = ("load_db", "load_db_str", "test_db", "UnLoadDatabase", "RunString")
    for fn in ("LoadDatabase", "LoadDatabaseString", "load_db", "load_db_str", "test_db"):
        if fn not in WM:
            errs.append(f"IPhreeqc::{fn} not found")
            continue
        sm = inlined(WM, fn, stop=[x for x in stop if x != fn])
        shape += [(fn, "calls:" + c) for c in sorted(sm["calls"])] + [(fn, "resets:" + r) for r in sorted(sm["resets"]) if not r.startswith("E:")]
    ctor = WM.get("<ctor>", dict(resets=set()))
    keys = known_keys()
    known = set()
    for k in keys:
        known |= set(FINDING_KEYS.get(k, []))
    pol = policy()
    return dict(pol=pol, names=names, idx=idx, parent=parent, top=top, subs=subs, A=A, C=C, U=U, S=S, W=Wset, R=R, unknown=sorted(set(unknown)),
                errors=errs, Wio=Wio, Sio=Sio, Uio=Uio, wnames=wnames, w_unload=w_unload, w_unload_writes=w_unload_writes,
                percall=percall, ctor=set(ctor["resets"]), shape=shape, auto_followed=auto_followed, un_inlined=un.get("inlined", []), known=known, keys=keys, M=M, WM=WM, types=types, fields=fields)


def spec_holds(a, member, spec):
    """does the code have the shape a policy entry claims?  spec = top:F | any:F | writes:F | topcall:F:M | call:F:M"""
    M = a["M"]
    w = spec.split(":")
    fn = M.get(w[1]) if len(w) > 1 else None
    if fn is None:
        return False
    if w[0] == "top":
        return member in fn["top_resets"]
    if w[0] == "any":
        return member in fn["resets"]
    if w[0] == "writes":
        return member in fn["writes"]
    if w[0] == "topcall":
        return f"{member}.{w[2]}" in fn["top_mcalls"]
    if w[0] == "frees":
        return member in fn["frees"]
    if w[0] == "call":
        return f"phrq_io->{w[2]}" in fn["mcalls"]
    return False


def policy_evidence(a):
    ev = []
    for key in ("healedBy", "scratchWriter", "ioHealedBy", "freedElsewhere"):
        for member, spec in a["pol"].get(key, []):
            if spec_holds(a, member, spec):
                ev.append((member, spec))
    return ev


def covered_py(a, p):
    R = a["A"] | a["C"] | a["U"] | a["S"]
    if p in R or p.split(".")[0] in R:
        return True
    kids = [q for q in a["subs"] if q.startswith(p + ".")]
    return bool(kids) and all(q in R for q in kids)


def pol_names(a, k):
    return {n for n, _ in a["pol"][k]}


def uncovered_readers(a):
    """reader-written member paths that no part of the load path resets and the policy does not explain"""
    out = []
    ok = pol_names(a, "healed") | pol_names(a, "fileNames") | a["known"]
    for p in sorted(a["W"]):
        if p not in a["idx"]:
            continue
        if covered_py(a, p) or p in ok or p.split(".")[0] in ok:
            continue
        if "." in p and not covered_py(a, p.split(".")[0]) and p.split(".")[0] in a["W"]:
            continue                     # reported once, under its parent
        out.append(p)
    return out


def unaccounted(a):
    ok = pol_names(a, "healed") | pol_names(a, "fileNames") | pol_names(a, "scratch") | a["known"]

    def path_ok(p):
        return covered_py(a, p) or p in ok or p.split(".")[0] in ok
    out = []
    for p in a["names"]:
        kids = [q for q in a["subs"] if q.startswith(p + ".")]
        if path_ok(p) or (kids and all(path_ok(q) for q in kids)):
            continue
        out.append(p)
    return out


def emit_lean(a):
    idx = a["idx"]

    def ids(paths):
        return sorted({idx[p] for p in paths if p in idx})
    L = []
    L.append("/- GENERATED by tools/gen_members.py from the clang-14 AST of /repo/src -- do not edit.\n"
             "   Member paths of class Phreeqc are numbered; `names` gives the text. -/")
    L.append("namespace PhreeqcVerif.Gen.Members\n")
    L.append(f"/-- every non-static data member of class Phreeqc ({len(a['top'])}) followed by the directly accessed fields of its struct-typed members ({len(a['subs'])}) -/")
    L.append(f"def names : List String :=\n  {str_list(a['names'])}\n")
    L.append(f"def memberCount : Nat := {len(a['names'])}\n")
    L.append(f"/-- (field path, its parent member) -/\ndef parentOf : List (Nat × Nat) :=\n  [{', '.join(f'({c}, {p})' for c, p in a['parent'])}]\n")
    L.append(f"/-- A: reset-assigned by {', '.join(RESET_INIT)} -/\ndef initAssigned : List Nat :=\n  {nat_list(ids(a['A']))}\n")
    L.append(f"/-- C: cleared/freed by {', '.join(RESET_CLEAN)} -/\ndef cleaned : List Nat :=\n  {nat_list(ids(a['C']))}\n")
    L.append(f"/-- U: engine members IPhreeqc::UnLoadDatabase resets itself -/\ndef unloadReset : List Nat :=\n  {nat_list(ids(a['U']))}\n")
    L.append(f"/-- S: reset at the top of read_input(), before the first input line of every simulation is read -/\ndef simPrologue : List Nat :=\n  {nat_list(ids(a['S']))}\n")
    mask = 0
    for i in ids(a["A"] | a["C"] | a["U"] | a["S"]):
        mask |= 1 << i
    L.append(f"/-- bit i set iff member i is in initAssigned ++ cleaned ++ unloadReset ++ simPrologue (checked by `reset_mask_ok`) -/\ndef resetMask : Nat := {mask}\n")
    L.append(f"/-- W: written (in any way) by a function reachable from read_input() ({len(a['R'])} functions) -/\ndef readerWritten : List Nat :=\n  {nat_list(ids(a['W']))}\n")
    for key in ("healed", "scratch", "fileNames"):
        nm = [n for n, _ in a["pol"][key]]
        missing = [n for n in nm if n not in idx]
        if missing:
            a["errors"].append(f"ResetPolicy.{key} names unknown members: {missing}")
        L.append(f"/-- ids of ResetPolicy.{key} (same order; checked by `policy_ids_ok`) -/\ndef {key}Ids : List Nat := {nat_list([idx[n] for n in nm if n in idx])}\n")
    L.append(f"/-- members covered by a `finding: property=C07 key=…` line of known_findings.txt (keys: {sorted(a['keys'])}) -/\n"
             f"def knownUnreset : List Nat := {nat_list(ids(a['known']))}\n")
    dm = 0
    expl = set(a["known"])
    for key in ("healed", "scratch", "fileNames"):
        expl |= {n for n, _ in a["pol"][key]}
    for n in a["names"]:
        if n in expl or n.split(".")[0] in expl:
            dm |= 1 << idx[n]
    L.append(f"/-- bit i set iff member i, or its parent member, is in scratchIds/healedIds/fileNamesIds/knownUnreset (checked by `dead_mask_ok`) -/\ndef deadMask : Nat := {dm}\n")
    M = a["M"]
    tmap = {f[0]: f[1] for f in a["fields"]}
    ptrs = [n for n in a["top"] if tmap.get(n, "").endswith("*") or "(*)" in tmap.get(n, "")]
    owned, freed = set(), set()
    for fn, m in M.items():
        if fn not in ("<ctor-copy>", "InternalCopy", "operator="):
            owned |= m["allocs"]
    for fn in RESET_CLEAN:
        if fn in M:
            freed |= M[fn]["frees"]
    L.append(f"/-- pointer-typed data members of class Phreeqc -/\ndef pointerMembers : List Nat := {nat_list(ids(ptrs))}\n")
    L.append(f"/-- pointer members that some function assigns from new / PHRQ_malloc / PHRQ_calloc / PHRQ_realloc (owning pointers) -/\ndef ownedPointers : List Nat := {nat_list(ids(owned))}\n")
    L.append(f"/-- pointer members released (delete / free_check_null / PHRQ_free) by {', '.join(RESET_CLEAN)} -/\ndef freedInCleanUp : List Nat := {nat_list(ids(freed))}\n")
    fe = [n for n, _ in a["pol"].get("freedElsewhere", [])]
    L.append(f"def freedElsewhereIds : List Nat := {nat_list([idx[n] for n in fe if n in idx])}\n")
    ev = policy_evidence(a)
    a["policy_evidence_missing"] = [(m, sp) for key in ("healedBy", "scratchWriter", "ioHealedBy", "freedElsewhere") for m, sp in a["pol"].get(key, []) if (m, sp) not in ev]
    L.append("/-- (member, claimed code shape) pairs of ResetPolicy.healedBy / scratchWriter / ioHealedBy that the AST confirms:\n"
             "    top:F = unconditional reset-form statement at the top level of F; any:F = reset-form anywhere in F; writes:F = F writes it;\n"
             "    topcall:F:M = unconditional top-level call member.M() in F; call:F:M = F calls phrq_io->M -/")
    L.append("def policyEvidence : List (String × String) :=\n  [" + ",\n   ".join(f"({lean_str(m)}, {lean_str(sp)})" for m, sp in ev) + "]\n")
    L.append(f"def unknownResetCallees : List String := {str_list(a['unknown'])}\n")
    L.append(f"def translatorErrors : List String := {str_list(a['errors'])}\n")
    # io flags
    L.append(f"def ioFlagsSetByReaders : List String := {str_list(sorted(a['Wio']))}")
    L.append(f"def ioFlagsResetByPrologue : List String := {str_list(sorted(a['Sio']))}")
    L.append(f"def ioFlagsResetByUnload : List String := {str_list(sorted(a['Uio']))}")
    L.append(f"def knownUnresetIo : List String := {str_list(sorted(p for p in a['known'] if p.startswith('io.')))}\n")
    # wrapper
    L.append("/-- data members of class IPhreeqc and (prefix io.) of its base PHRQ_io -/")
    L.append(f"def wrapperFields : List String :=\n  {str_list(a['wnames'])}\n")
    L.append(f"/-- wrapper members IPhreeqc::UnLoadDatabase resets (assignment, .clear(), Reporter->Clear()) -/\ndef wrapperUnloadResets : List String :=\n  {str_list(sorted(a['w_unload']))}\n")
    L.append(f"/-- wrapper members IPhreeqc::UnLoadDatabase writes in any way -/\ndef wrapperUnloadWrites : List String :=\n  {str_list(sorted(a['w_unload_writes']))}\n")
    L.append(f"/-- wrapper members written by check_database / update_errors / close_output_files (run by every Run*) -/\ndef wrapperPerCall : List String :=\n  {str_list(sorted(a['percall']))}\n")
    L.append("/-- (function of class IPhreeqc, fact) for the load path, helpers of the class inlined: calls:<callee> | resets:<member> -/")
    L.append("def loadShape : List (String × String) :=\n  [" + ",\n   ".join(f"({lean_str(f)}, {lean_str(x)})" for f, x in a["shape"]) + "]\n")
    L.append(f"/-- helpers whose bodies were read in place of a call (evidence only) -/\ndef inlinedHelpers : List String := {str_list(sorted(set(a['auto_followed']) | {'UnLoadDatabase -> ' + h for h in a['un_inlined']}))}\n")
    L.append("end PhreeqcVerif.Gen.Members")
    return "\n".join(L) + "\n"


def generate(ctx=None):
    res, errors, cached = collect(ctx)
    a = analyse(res, errors)
    text = emit_lean(a)
    out = vlib.LEAN / "PhreeqcVerif" / "Gen" / "Members.lean"
    changed = write_if_changed(out, text)
    dumped, skipped = gen_dump_header(a["fields"], a["types"])
    info = dict(members=len(a["top"]), field_paths=len(a["subs"]), init_assigned=len(a["A"]), cleaned=len(a["C"]),
                unload_reset=sorted(a["U"]), sim_prologue=len(a["S"]), reader_functions=len(a["R"]), reader_written=len(a["W"]),
                scratch=len(a["pol"]["scratch"]), uncovered_readers=uncovered_readers(a), unaccounted=unaccounted(a),
                unknown_reset_callees=a["unknown"], translator_errors=a["errors"], tus_cached=cached, tus=len(res),
                dumped_members=len(dumped), not_dumped=skipped, lean_changed=changed,
                io_flags=dict(readers=sorted(a["Wio"]), prologue=sorted(a["Sio"]), unload=sorted(a["Uio"])),
                wrapper_fields=len(a["wnames"]), known_keys=sorted(a["keys"]),
                policy_evidence_missing=a.get("policy_evidence_missing", []), auto_followed=a["auto_followed"], unload_inlined=a["un_inlined"])
    if ctx is not None:
        ctx.log("gen_members:", {k: info[k] for k in ("members", "init_assigned", "cleaned", "reader_written", "uncovered_readers", "unaccounted",
                                                      "unknown_reset_callees", "translator_errors", "tus_cached")})
    return info, a


if __name__ == "__main__":
    i, _ = generate()
    print(json.dumps(i, indent=1))
