import PhreeqcVerif.Model.SelOut
/-!
Model of the message routing of `IPhreeqc` (src/IPhreeqc.cpp):
`output_msg / log_msg / error_msg / warning_msg / punch_msg / fpunchf (3 overloads) / fpunchf_end_row / EndRow`,
the per-call line splitting of `do_run` / `update_errors` (a `std::getline` loop) and the line accessors.

An event is what the engine hands to the virtual `PHRQ_io` interface; the `on` flag is the value of the
corresponding `PHRQ_io::*_on` member at that moment. Rendering of a value with the block's print format is
*not* modelled: the rendered text is part of the event (`PHRQ_io::fpunchf_helper` renders once per sink from
the same `(format, value)` pair; the harness re-renders with an independent `vsnprintf`).
-/
namespace PhreeqcVerif.Route
open PhreeqcVerif.SelOut

/-! ### line splitting (`while (std::getline(iss, line)) lines.push_back(line)`) -/

def splitLines : List Char → List (List Char)
  | [] => []
  | c :: cs =>
    if c = '\n' then [] :: splitLines cs
    else match splitLines cs with
      | [] => [[c]]
      | l :: ls => (c :: l) :: ls

def joinLines (ls : List (List Char)) : List Char := ls.flatMap (· ++ ['\n'])

/-- line accessor `Get…StringLine(n)`: the n-th line inside `0..count-1`, the empty string outside -/
def lineAt (ls : List (List Char)) (n : Int) : List Char :=
  if n < 0 ∨ n ≥ (ls.length : Int) then [] else ls.getD n.toNat []

/-! ### plain message streams (output, log) -/

structure MsgCfg where
  strOn : Bool
  fileOn : Bool

/-- a message with the `*_on` flag of `PHRQ_io` at the time of the call -/
structure Msg where
  on : Bool
  text : List Char

structure MsgSinks where
  str : List Char := []
  file : List Char := []

def MsgSinks.step (cfg : MsgCfg) (s : MsgSinks) (m : Msg) : MsgSinks :=
  { str := if cfg.strOn && m.on then s.str ++ m.text else s.str,
    file := if cfg.fileOn && m.on then s.file ++ m.text else s.file }

def routeMsgs (cfg : MsgCfg) (ms : List Msg) : MsgSinks := ms.foldl (MsgSinks.step cfg) {}

/-! ### error / warning stream -/

inductive ErrEv where
  | err (on : Bool) (stop : Bool) (text : List Char)
  | warn (on : Bool) (text : List Char)

structure ErrCfg where
  errStrOn : Bool      -- ErrorStringOn
  warnStrOn : Bool     -- WarningStringOn (always true: no setter)
  fileOn : Bool        -- error_ostream != NULL

/-- chunks appended to the error string (`ErrorReporter`) -/
def errStrChunks (cfg : ErrCfg) : List ErrEv → List (List Char)
  | [] => []
  | .err on _ t :: es => if cfg.errStrOn && on then t :: errStrChunks cfg es else errStrChunks cfg es
  | .warn _ _ :: es => errStrChunks cfg es

/-- chunks written to the error file: error text, "Stopping.\n" after a fatal error, warning text + "\n" -/
def errFileChunks (cfg : ErrCfg) : List ErrEv → List (List Char)
  | [] => []
  | .err on stop t :: es =>
    if cfg.fileOn && on then
      (if stop then [t, "Stopping.\n".toList] else [t]) ++ errFileChunks cfg es
    else errFileChunks cfg es
  | .warn on t :: es =>
    if cfg.fileOn && on then (t ++ ['\n']) :: errFileChunks cfg es else errFileChunks cfg es

def warnStrChunks (cfg : ErrCfg) : List ErrEv → List (List Char)
  | [] => []
  | .err _ _ _ :: es => warnStrChunks cfg es
  | .warn _ t :: es => if cfg.warnStrOn then (t ++ ['\n']) :: warnStrChunks cfg es else warnStrChunks cfg es

/-- number of ERROR events of a call -/
def errCount : List ErrEv → Nat
  | [] => 0
  | .err _ _ _ :: es => errCount es + 1
  | .warn _ _ :: es => errCount es

/-! ### selected output: file, string and table per user number -/

inductive PEv where
  /-- `punch_msg` while user number `n` is current -/
  | msg (n : Int) (on : Bool) (text : List Char)
  /-- `fpunchf(name, format, value)`: the value stored in the table and its rendering with `format` -/
  | val (n : Int) (on : Bool) (name : String) (v : Var) (rendered : List Char)
  /-- `fpunchf_end_row` → `EndRow`, with the user-punch headings not yet punched in this row -/
  | endRow (n : Int) (pending : List String)
  /-- `punch_open(file, ios::out, n)`: the punch file of user number `n` is (re)opened, i.e. truncated.
  Happens when a SELECTED_OUTPUT block is read and when `do_run` finds the file switch on without a stream. -/
  | reopen (n : Int)

def PEv.user : PEv → Int
  | .msg n _ _ => n
  | .val n _ _ _ _ => n
  | .endRow n _ => n
  | .reopen n => n

structure PCfg where
  /-- switch consulted by `punch_msg`/`fpunchf` for user number `n` -/
  strOn : Int → Bool
  /-- whether a punch file stream is attached to user number `n` during the run -/
  fileOn : Int → Bool

structure PSinks where
  str : Int → List Char
  file : Int → List Char
  tab : Int → Table

def PSinks.init : PSinks := ⟨fun _ => [], fun _ => [], fun _ => Table.init⟩

def upd {β} (f : Int → β) (n : Int) (g : β → β) : Int → β := fun m => if m = n then g (f m) else f m

def pushPending (t : Table) (pending : List String) : Table :=
  pending.foldl (fun t h => t.pushBack h .empty) t

def PSinks.step (cfg : PCfg) (s : PSinks) : PEv → PSinks
  | .msg n on t =>
    { s with str := upd s.str n (fun x => if cfg.strOn n && on then x ++ t else x),
             file := upd s.file n (fun x => if cfg.fileOn n && on then x ++ t else x) }
  | .val n on name v r =>
    { str := upd s.str n (fun x => if cfg.strOn n && on then x ++ r else x),
      file := upd s.file n (fun x => if cfg.fileOn n && on then x ++ r else x),
      tab := upd s.tab n (fun t => t.pushBack name v) }
  | .endRow n pending =>
    { s with tab := upd s.tab n (fun t => (pushPending t pending).endRow) }
  | .reopen n =>
    { s with file := upd s.file n (fun _ => []) }

def routePunch (cfg : PCfg) (evs : List PEv) : PSinks := evs.foldl (PSinks.step cfg) PSinks.init

/-- text contributed by an event (what both text sinks would receive) -/
def PEv.text : PEv → List Char
  | .msg _ on t => if on then t else []
  | .val _ on _ _ r => if on then r else []
  | .endRow _ _ => []
  | .reopen _ => []

/-- the code as it is: `get_sel_out_string_on(n)` ignores `n` and consults the switch of the *current*
user number (DESIGN.md §6 item 1) -/
def codeStrOn (switches : Int → Bool) (current : Int) : Int → Bool := fun _ => switches current

/-- the property's per-user-number semantics -/
def specStrOn (switches : Int → Bool) : Int → Bool := switches

end PhreeqcVerif.Route
