"""Seeded generators of *bad* input for C08.  Everything is `bytes` (NUL-free); every random choice comes from the rng passed in.

Vocabulary is extracted from the source tree at import time (keywords, per-reader option lists, RAW option lists, BASIC tokens),
so the generators follow the code that exists.  Families:
  mutate     shipped examples / gtest inputs / built-in seeds under token, line, number, byte and structural mutations
  grammar    one data block per keyword with wrong, missing, duplicated, out-of-range options and bodies
  basic      truncated / malformed BASIC in RATES, USER_PUNCH, USER_PRINT, CALCULATE_VALUES, USER_GRAPH (tokens PEEK/POKE excluded:
             known finding basic-peek-poke)
  entities   unknown species/phases/elements, undefined entity numbers
  extreme    extreme numbers, huge integers, very long tokens and lines
  bytes      arbitrary NUL-free bytes
  database   the same mutations applied to database text (LoadDatabaseString / LoadDatabase of a written file)
  files      file-name faults: RunFile / LoadDatabase of nonexistent, directory, odd paths; unwritable output names with the file
             switch on; INCLUDE$ of missing files
Byte-level mutations never produce '/' or '\\\\' (the process runs as root: a mutated file option must stay inside the work directory).
"""
import os
import re
from pathlib import Path

import vlib

SRC = vlib.REPO / "src" / "phreeqcpp"
EXDIR = vlib.REPO / "phreeqc3-examples"
DBDIR = vlib.REPO / "database"
PHREEQC_DAT = str(DBDIR / "phreeqc.dat")

# ------------------------------------------------------------------------------------------------ vocabulary from the source


def _read(p):
    try:
        return Path(p).read_text(errors="replace")
    except OSError:
        return ""


def _extract_vocab():
    kw = re.findall(r'value_type\("([^"]+)",\s*Keywords::KEY_(\w+)\)', _read(SRC / "PhreeqcKeywords" / "Keywords.cpp"))
    keywords = {}
    for name, key in kw:
        keywords.setdefault(key, []).append(name)
    # reader function per keyword (read_input's switch)
    rd = _read(SRC / "read.cpp")
    reader = {}
    for m in re.finditer(r"case Keywords::KEY_(\w+):[^\n]*\n((?:\s*//[^\n]*\n)*)\s*(\w+)\s*\(", rd):
        reader.setdefault(m.group(1), m.group(3))
    # option lists per function
    opts = {}
    for f in list(SRC.glob("*.cpp")) + list(SRC.glob("*.cxx")):
        t = _read(f)
        funcs = [(m.start(), m.group(1)) for m in re.finditer(r"^(\w+)\s*\([^;{]*\)\s*\n(?:/\*.*\*/\n)?\{", t, re.M)]
        funcs += [(m.start(), m.group(1)) for m in re.finditer(r"^\w[\w:<> ]*::(\w+)\s*\([^;{]*\)\s*(?:const)?\s*\n?\{", t, re.M)]
        funcs.sort()
        for m in re.finditer(r"opt_list\[\]\s*=\s*\{(.*?)\};", t, re.S):
            names = re.findall(r'"([^"]*)"', m.group(1))
            owner = "?"
            for pos, name in funcs:
                if pos < m.start():
                    owner = name
            opts.setdefault(owner, [])
            opts[owner] += [n for n in names if n not in opts[owner]]
        for m in re.finditer(r"temp_vopts\[\]\s*=\s*\{(.*?)\};", t, re.S):
            names = re.findall(r'value_type\("([^"]*)"\)', m.group(1))
            opts.setdefault("raw:" + f.stem, [])
            opts["raw:" + f.stem] += [n for n in names if n not in opts["raw:" + f.stem]]
    basic = re.findall(r'value_type\("([^"]+)",\s*PBasic::tok\w+\)', _read(SRC / "PBasic.cpp"))
    return keywords, reader, opts, basic


KEYWORDS, READER, OPTS, BASIC_TOKENS = _extract_vocab()
EXCLUDED_BASIC = {"peek", "poke"}                       # known finding basic-peek-poke (listed): excluded from judged programs
BASIC_WORDS = [t for t in BASIC_TOKENS if t.lower() not in EXCLUDED_BASIC and re.match(r"^[A-Za-z_$]+$", t)]
ALL_OPTS = sorted({o for v in OPTS.values() for o in v if o})
RAW_CLASS = {"SOLUTION_RAW": "Solution", "SOLUTION_MODIFY": "Solution", "EXCHANGE_RAW": "Exchange", "EXCHANGE_MODIFY": "Exchange",
             "SURFACE_RAW": "Surface", "SURFACE_MODIFY": "Surface", "EQUILIBRIUM_PHASES_RAW": "PPassemblage",
             "EQUILIBRIUM_PHASES_MODIFY": "PPassemblage", "KINETICS_RAW": "cxxKinetics", "KINETICS_MODIFY": "cxxKinetics",
             "SOLID_SOLUTIONS_RAW": "SSassemblage", "SOLID_SOLUTIONS_MODIFY": "SSassemblage", "GAS_PHASE_RAW": "GasPhase",
             "GAS_PHASE_MODIFY": "GasPhase", "REACTION_RAW": "Reaction", "REACTION_MODIFY": "Reaction", "MIX_RAW": "cxxMix",
             "REACTION_TEMPERATURE_RAW": "Temperature", "REACTION_PRESSURE_RAW": "Pressure", "DUMP": "dumper", "DELETE": "StorageBinList",
             "COPY": "?", "RUN_CELLS": "runner"}


def options_of(key):
    """option names the reader of keyword `key` accepts (best effort; global pool when unknown)"""
    o = []
    cls = RAW_CLASS.get(key)
    if cls:
        o = list(OPTS.get("raw:" + cls, []))
        for k, v in OPTS.items():
            if k.startswith("raw:" + cls[:5]) and k != "raw:" + cls:
                o += v
    fn = READER.get(key)
    if fn and fn in OPTS:
        o += OPTS[fn]
    return o or ALL_OPTS


ELEMENTS = ["Na", "K", "Ca", "Mg", "Cl", "S(6)", "C(4)", "N(5)", "Fe", "Fe(2)", "Al", "Si", "Ba", "Alkalinity", "O(0)", "S(-2)", "C", "N(-3)", "H(0)"]
BAD_NAMES = ["Xx", "Zzz+3", "Nosuch", "Ca+", "H", "e-", "H2O", "(", "Fe(", "Fe()", "Fe(99)", "CaCO3)", "[Odd]", "[", "Ca+2+2", "-", "+", "=",
             "1Na", "Na Cl", "\"quoted\"", "a" * 300, "Ca+2" * 50, "é", "#", ";", "\\", "E", "e", "OH-", "Ca++", "Ca+-2", "SO4--", "X-", "Hfo_w",
             "Hfo_wOH", "CO2(g)", "Calcite", "calcite", "CALCITE", "pH", "pe", "charge", "as", "gfw", "mol/kgw", "ug/L", "kJ", "true", "false"]
PHASES = ["Calcite", "Dolomite", "Gypsum", "Halite", "Quartz", "CO2(g)", "O2(g)", "H2O(g)", "Goethite", "Fix_pH", "Nophase", "Pyrite", "CH4(g)"]
SPECIES = ["Na+", "Cl-", "Ca+2", "HCO3-", "CO3-2", "OH-", "H+", "SO4-2", "H2O", "e-", "CaX2", "NaX", "Hfo_wOH", "Hfo_sOHCa+2", "Zz+9"]
EXTREME = ["1e308", "-1e308", "1e309", "-1e309", "1e-320", "1e-400", "nan", "NaN", "inf", "-inf", "Infinity", "0", "-0", "-1", "0.0", "1e", "1e+",
           "1.2.3", "--1", "+-1", ".", "-", "+", "1d5", "0x10", "1e5000", "2147483647", "2147483648", "-2147483648", "-2147483649",
           "4294967296", "9223372036854775807", "9223372036854775808", "99999999999999999999999999", "1" * 400, "0." + "0" * 400 + "1",
           "1e0000000000000000000000000000005", "1,5", "1;5", "1e3e3", "1/0", "1e-5000", "-0.0", "00000001", "١٢٣", "1_000"]
INTS_BAD = ["0", "-1", "-5", "1000000", "100000000", "2147483647", "2147483648", "-2147483648", "99999999999", "1-", "-1-3", "5-1", "1-2-3", "1--3",
            "3-3", "0-0", "1.5", "1e3", "x", "", "1-1000000"]
BOOLS = ["true", "false", "t", "f", "T", "F", "yes", "no", "1", "0", "tru", "", "maybe", "TRUE"]
UNITS = ["mol/kgw", "mmol/kgw", "mg/L", "ppm", "ug/kgs", "mol/L", "eq/L", "meq/kgs", "g/l", "kg/kgw", "mol", "mmol/m3", "1/kgw", "mg/", "/L", "as", "umol/kgw as"]


def b(x):
    return x if isinstance(x, bytes) else x.encode("utf-8", "replace")


# ------------------------------------------------------------------------------------------------ seeds

EX_DB = {"ex15": str(EXDIR / "ex15.dat"), "ex15a": str(EXDIR / "ex15.dat"), "ex15b": str(EXDIR / "ex15.dat"), "ex17": str(DBDIR / "pitzer.dat"),
         "ex17b": str(DBDIR / "pitzer.dat"), "ex20a": str(DBDIR / "iso.dat"), "ex20b": str(DBDIR / "iso.dat")}
SLOW = {"ex11", "ex12", "ex12a", "ex10", "ex13c", "ex12b", "ex13ac", "ex21", "ex22"}

BUILTIN = [
    ("surf", "SURFACE_MASTER_SPECIES\n Ss Ss_OH\nSURFACE_SPECIES\n Ss_OH = Ss_OH\n  log_k 0\n Ss_OH + H+ = Ss_OH2+\n  log_k 7\nSOLUTION 12\n pH 7\n Na 10\n Cl 10\n"
             "SURFACE 12\n Ss_OH 0.01 600 1\n -equilibrate 12\n -donnan 1e-8\nEND\n"),
    ("exch", "SOLUTION 10\n pH 7\n Na 1\n Cl 1\n Ca 2\nEXCHANGE 10\n X 0.1\n -equilibrate 10\nSAVE exchange 11\nEND\nUSE exchange 11\nSOLUTION 11\n K 5\n Cl 5\nEND\n"),
    ("gas", "SOLUTION 13\n temp 60\n pressure 50\n pH 7\n C 1\nGAS_PHASE 13\n -fixed_volume\n -volume 2\n -temperature 60\n CO2(g) 5\n H2O(g) 0.1\nSAVE gas_phase 14\nEND\n"),
    ("kin", "RATES\n Myrate\n -start\n 10 rate = PARM(1) * TOT(\"Na\") * (1 - SR(\"Halite\"))\n 20 moles = rate * TIME\n 30 SAVE moles\n -end\n"
            "SOLUTION 7\n pH 7\n Na 1\n Cl 1\nKINETICS 7\n Myrate\n  -formula NaCl 1\n  -parms 1e-3\n  -m0 1\n -steps 10 in 2 steps\n -cvode true\nINCREMENTAL_REACTIONS true\nEND\n"),
    ("transport", "SOLUTION 0-4\n pH 7\n Na 1\n Cl 1\nEND\nSELECTED_OUTPUT 1\n -totals Na\nTRANSPORT\n -cells 4\n -shifts 3\n -time_step 100\n -flow_direction forward\n"
                  " -boundary_conditions flux flux\n -lengths 0.5\n -dispersivities 0.02\n -diffusion_coefficient 1e-9\n -stagnant 1 6.8e-6 0.3 0.1\n -print_cells 1-2\n"
                  " -punch_cells 2\nSOLUTION 6-9\n pH 7\nEND\n"),
    ("advection", "SOLUTION 0-3\n pH 7\n Na 1\n Cl 1\nEND\nADVECTION\n -cells 3\n -shifts 4\n -time_step 50\n -print_cells 2\n -punch_cells 1 3\nEND\n"),
    ("inverse", "SOLUTION 1\n pH 7\n Ca 1\n C 2\nSOLUTION 2\n pH 7.5\n Ca 2\n C 4\nINVERSE_MODELING 1\n -solutions 1 2\n -uncertainty 0.1\n -phases\n  Calcite\n  CO2(g)\n -range\nEND\n"),
    ("ss", "SOLUTION 1\n pH 7\n Ca 1\n Sr 1\n C 2\nSOLID_SOLUTIONS 1\n CaSrCO3\n -comp Calcite 0.1\n -comp Strontianite 0.01\n -Gugg_nondim 3.4 -5.6\nEND\n"),
    ("mix", "SOLUTION 1\n Na 1\n Cl 1\nSOLUTION 2\n K 1\n Cl 1\nEND\nMIX 1\n 1 0.5\n 2 0.5\nSAVE solution 3\nREACTION_TEMPERATURE 1\n 25 50 75\nREACTION_PRESSURE 1\n 1 10 100\nEND\n"),
    ("dump", "SOLUTION 1\n Na 1\n Cl 1\nEQUILIBRIUM_PHASES 1\n Calcite 0 1\nSAVE solution 2\nEND\nDUMP\n -all\nEND\nCOPY solution 2 5-7\nDELETE\n -solution 5\nRUN_CELLS\n -cells 2\nEND\n"),
    ("spread", "SOLUTION_SPREAD\n -units mg/L\n -temp 25\n Number\tpH\tNa\tCl\tCa\n 1\t7\t10\t12\t3\n 2\t8\t20\t22\t\n 3-4\t6.5\t1\t1\t1\nEND\n"),
    ("species", "SOLUTION_MASTER_SPECIES\n Zz Zz+ 0 Zz 77\nSOLUTION_SPECIES\n Zz+ = Zz+\n  log_k 0\n  -gamma 4 0.1\n Zz+ + Cl- = ZzCl\n  log_k 1.5\n  delta_h 3 kcal\n  -analytic 1 0 0 0 0\n"
                "PHASES\n Zzphase\n ZzCl = Zz+ + Cl-\n  log_k -1.0\n  -Vm 20\nNAMED_EXPRESSIONS\n Ne1\n  log_k 5.5\nSOLUTION 9\n pH 7\n Zz 1\n Cl 1\nEQUILIBRIUM_PHASES 9\n Zzphase 0 1\nEND\n"),
    ("punch", "SOLUTION 1\n pH 7\n Na 1\n Cl 1\nSELECTED_OUTPUT 1\n -reset false\n -pH true\n -totals Na Cl\n -molalities Na+\n -saturation_indices Halite\n"
              "USER_PUNCH 1\n -headings a b\n 10 PUNCH TOT(\"Na\"), LA(\"H+\")\nUSER_PRINT\n 10 PRINT \"x\", MU\nCALCULATE_VALUES\n cv1\n -start\n 10 SAVE TOT(\"Cl\")*2\n -end\n"
              "PRINT\n -reset true\nKNOBS\n -iterations 150\nTITLE a title\nEND\n"),
    ("isotopes", "ISOTOPES\n H\n -isotope D permil 155.76e-6\nISOTOPE_RATIOS\n R(D) D\nISOTOPE_ALPHAS\n Alpha_D_OH-/H2O(l) Log_alpha_D_OH-/H2O(l)\nEND\n"),
    ("pitzer", "PITZER\n -macinnes true\n -B0\n  Na+ Cl- 0.0765 -777.03 -4.4706 0.008946 -3.3158E-6\nSIT\n -epsilon\n  Na+ Cl- 0.03\nLLNL_AQUEOUS_MODEL_PARAMETERS\n -temperatures\n  0 25 60 100\nEND\n"),
    ("usergraph", "USER_GRAPH 1\n -headings x y\n -axis_titles a b\n -initial_solutions false\n -start\n 10 GRAPH_X TOT(\"Na\")\n 20 GRAPH_Y TOT(\"Cl\")\n -end\nSOLUTION 1\n Na 1\n Cl 1\nEND\n"),
]


def seeds():
    """[(name, text bytes, database path)]"""
    S = []
    if EXDIR.exists():
        for f in sorted(EXDIR.iterdir()):
            if f.is_file() and re.fullmatch(r"ex\d+\w*", f.name) and f.name not in SLOW:
                S.append((f.name, f.read_bytes().replace(b"\0", b" "), EX_DB.get(f.name, PHREEQC_DAT)))
    for f in sorted((vlib.REPO / "gtest").glob("*")):
        if f.is_file() and (f.suffix == ".in" or f.name in ("dump", "multi_punch", "multi_punch_no_set", "kinn20140218")) and f.stat().st_size < 40000:
            S.append(("gtest/" + f.name, f.read_bytes().replace(b"\0", b" "), PHREEQC_DAT))
    for f in sorted((vlib.REPO / "tests").glob("*.in")):
        if f.name != "phreeqc.dat.in":
            S.append(("tests/" + f.name, f.read_bytes().replace(b"\0", b" "), PHREEQC_DAT))
    for n, t in BUILTIN:
        S.append(("builtin/" + n, b(t), PHREEQC_DAT))
    return S


# ------------------------------------------------------------------------------------------------ mutations

def _safe_byte(rng):
    while True:
        c = rng.randint(1, 255)
        if c not in (0x2f, 0x5c):
            return c


def rand_bytes(rng, n):
    return bytes(_safe_byte(rng) for _ in range(n))


def weird_token(rng):
    r = rng.random()
    if r < 0.3:
        return b(rng.choice(EXTREME))
    if r < 0.5:
        return b(rng.choice(BAD_NAMES))
    if r < 0.6:
        return b("-" + rng.choice(ALL_OPTS))
    if r < 0.7:
        return b(rng.choice([k for v in KEYWORDS.values() for k in v]).upper())
    if r < 0.75:
        return b("x" * rng.choice([255, 256, 257, 511, 512, 1023, 1024, 2047, 2048, 4096, 10000, 70000]))
    if r < 0.8:
        return rand_bytes(rng, rng.randint(1, 12))
    if r < 0.9:
        return b(rng.choice(INTS_BAD))
    return b(rng.choice(["#", ";", "\\", "\t", "\"", "'", "(", ")", "[", "]", "=", "+", "-", "*", ",", ":", "$", "END", "-", "--", "\r"]))


NUM_RE = re.compile(rb"(?<![A-Za-z_(])[-+]?(?:\d+\.?\d*|\.\d+)(?:[eE][-+]?\d+)?(?![A-Za-z_)])")
MUT_KINDS = ["token-replace", "token-delete", "token-dup", "token-insert", "line-delete", "line-dup", "line-swap", "line-truncate", "line-move",
             "number", "byte-flip", "byte-insert", "byte-delete", "truncate", "drop-end", "keyword-insert", "block-dup", "long-line", "semicolon",
             "backslash", "case", "option-prefix", "crlf"]


def mutate_once(rng, t):
    kind = rng.choice(MUT_KINDS)
    lines = t.split(b"\n")
    i = rng.randrange(len(lines))
    toks = lines[i].split()

    def join():
        return b"\n".join(lines)

    if kind == "token-replace" and toks:
        toks[rng.randrange(len(toks))] = weird_token(rng)
        lines[i] = b" " + b" ".join(toks)
    elif kind == "token-delete" and toks:
        del toks[rng.randrange(len(toks))]
        lines[i] = b" " + b" ".join(toks)
    elif kind == "token-dup" and toks:
        k = rng.randrange(len(toks))
        toks[k:k] = [toks[k]] * rng.choice([1, 1, 2, 50])
        lines[i] = b" " + b" ".join(toks)
    elif kind == "token-insert":
        toks.insert(rng.randint(0, len(toks)), weird_token(rng))
        lines[i] = b" " + b" ".join(toks)
    elif kind == "line-delete" and len(lines) > 1:
        del lines[i]
    elif kind == "line-dup":
        lines[i:i] = [lines[i]] * rng.choice([1, 1, 3])
    elif kind == "line-swap" and len(lines) > 1:
        j = rng.randrange(len(lines))
        lines[i], lines[j] = lines[j], lines[i]
    elif kind == "line-truncate" and lines[i]:
        lines[i] = lines[i][:rng.randrange(len(lines[i]))]
    elif kind == "line-move" and len(lines) > 1:
        ln = lines.pop(i)
        lines.insert(rng.randrange(len(lines) + 1), ln)
    elif kind == "number":
        ms = list(NUM_RE.finditer(t))
        if ms:
            m = rng.choice(ms)
            return t[:m.start()] + b(rng.choice(EXTREME + INTS_BAD)) + t[m.end():], kind
        kind = "number/none"
    elif kind == "byte-flip" and t:
        k = rng.randrange(len(t))
        return t[:k] + bytes([_safe_byte(rng)]) + t[k + 1:], kind
    elif kind == "byte-insert":
        k = rng.randrange(len(t) + 1)
        return t[:k] + rand_bytes(rng, rng.choice([1, 1, 2, 8, 64])) + t[k:], kind
    elif kind == "byte-delete" and t:
        k = rng.randrange(len(t))
        return t[:k] + t[k + rng.choice([1, 1, 2, 5, 30]):], kind
    elif kind == "truncate" and t:
        return t[:rng.randrange(len(t))], kind
    elif kind == "drop-end":
        ends = [k for k, ln in enumerate(lines) if ln.strip().upper() == b"END"]
        if ends:
            del lines[rng.choice(ends)]
    elif kind == "keyword-insert":
        key = rng.choice(sorted(KEYWORDS))
        lines.insert(i, b(rng.choice(KEYWORDS[key]).upper() + rng.choice(["", " 1", " 1-3", " -1", " 99999999999", " x"])))
    elif kind == "block-dup":
        j = min(len(lines), i + rng.randint(1, 12))
        lines[i:i] = lines[i:j]
    elif kind == "long-line":
        lines[i] = lines[i] + b" " + (b(rng.choice(["1 ", "a ", "Ca+2 ", "-x ", "1e5"])) * rng.choice([200, 2000, 20000]))
    elif kind == "semicolon":
        lines[i] = lines[i].replace(b" ", b";", 1) if rng.random() < 0.5 else lines[i] + b";" + weird_token(rng)
    elif kind == "backslash":
        lines[i] = lines[i] + b" \\" + (b"" if rng.random() < 0.7 else b" x")
    elif kind == "case":
        lines[i] = lines[i].swapcase()
    elif kind == "option-prefix" and toks and toks[0].startswith(b"-") and len(toks[0]) > 2:
        toks[0] = toks[0][:rng.randint(2, len(toks[0]))]
        lines[i] = b" " + b" ".join(toks)
    elif kind == "crlf":
        return t.replace(b"\n", b"\r\n") if rng.random() < 0.5 else t.replace(b"\n", b"\r"), kind
    else:
        toks.append(weird_token(rng))
        lines[i] = b" " + b" ".join(toks)
        kind += "/append"
    return join(), kind


def mutate(rng, t, n=None):
    kinds = []
    for _ in range(n or rng.choice([1, 1, 1, 2, 2, 3, 5])):
        t, k = mutate_once(rng, t)
        kinds.append(k)
    return t.replace(b"\0", b" "), kinds


# ------------------------------------------------------------------------------------------------ grammar-generated blocks

def value(rng):
    r = rng.random()
    if r < 0.3:
        return "%.4g" % (10 ** rng.uniform(-6, 3) * rng.choice([1, 1, 1, -1]))
    if r < 0.45:
        return rng.choice(EXTREME)
    if r < 0.55:
        return rng.choice(INTS_BAD)
    if r < 0.65:
        return rng.choice(BOOLS)
    if r < 0.75:
        return rng.choice(ELEMENTS + PHASES + SPECIES)
    if r < 0.85:
        return rng.choice(BAD_NAMES)
    if r < 0.9:
        return rng.choice(UNITS)
    return ""


def body_line(rng):
    r = rng.random()
    if r < 0.2:
        return f" {rng.choice(ELEMENTS + BAD_NAMES)} {value(rng)} {rng.choice(UNITS + ['', 'as HCO3', 'gfw 50', 'charge', 'Calcite 0', 'O2(g) -0.7'])}"
    if r < 0.35:
        return f" {rng.choice(PHASES + BAD_NAMES)} {value(rng)} {value(rng)} {rng.choice(['', 'dissolve_only', 'precipitate_only', 'diss', 'x'])}"
    if r < 0.5:
        lhs = " + ".join(rng.choice(["", "2", "0.5", "-1", "1e308"]) + rng.choice(SPECIES + BAD_NAMES) for _ in range(rng.randint(1, 3)))
        rhs = " + ".join(rng.choice(["", "2", "3"]) + rng.choice(SPECIES + BAD_NAMES) for _ in range(rng.randint(0, 2)))
        return f" {lhs} {rng.choice(['=', '=', '=', '==', '', '->'])} {rhs}"
    if r < 0.6:
        return f" {rng.choice(INTS_BAD)} {value(rng)}"
    if r < 0.7:
        return " " + " ".join(value(rng) for _ in range(rng.randint(1, 8)))
    if r < 0.8:
        return f" {rng.choice(['log_k', 'delta_h', '-analytic', '-gamma', '-Vm', '-dw', 'log_k', '-no_check', '-mole_balance', '-llnl_gamma', '-T_c'])} " \
               + " ".join(value(rng) for _ in range(rng.randint(0, 7)))
    if r < 0.9:
        return f" {rng.randint(1, 40)} {basic_stmt(rng)}"
    return " " + rng.choice(["-start", "-end", "#", ";", "END", "\\", "-"])


def block(rng, key=None):
    key = key or rng.choice(sorted(KEYWORDS))
    name = rng.choice(KEYWORDS[key]).upper()
    opts = options_of(key)
    head = name + rng.choice(["", "", " 1", " 1", " 2", " 1-3", " 5-1", " -3", " 0", " 99999999999", " 1 description text", " x", " 1.5", " 1-", " -1--3"])
    L = [head]
    for _ in range(rng.choice([0, 1, 2, 3, 3, 5, 8])):
        r = rng.random()
        if r < 0.62:
            o = rng.choice(opts)
            if rng.random() < 0.15 and len(o) > 2:
                o = o[:rng.randint(1, len(o))]                                     # prefix (the matcher is a case-folded prefix matcher)
            if rng.random() < 0.1:
                o = o.upper()
            L.append(" -" + o + " " + " ".join(value(rng) for _ in range(rng.choice([0, 1, 1, 1, 2, 3, 6]))))
            if rng.random() < 0.12:
                L.append(L[-1])                                                    # duplicated option
        elif r < 0.7:
            L.append(" -" + rng.choice(ALL_OPTS + ["", "-", "x", "1"]) + " " + value(rng))       # option of another keyword / unknown
        else:
            L.append(body_line(rng))
    return "\n".join(L) + "\n"


CONTEXT_OK = "SOLUTION 1\n pH 7\n Na 1\n Cl 1\n Ca 1\n C 2\n"


def grammar_input(rng):
    parts, keys = [], []
    if rng.random() < 0.6:
        parts.append(CONTEXT_OK)
    for _ in range(rng.choice([1, 1, 2, 3])):
        key = rng.choice(sorted(KEYWORDS))
        keys.append(key)
        parts.append(block(rng, key))
    if rng.random() < 0.8:
        parts.append("END\n")
    if rng.random() < 0.3:
        parts.append("USE solution 1\n" + block(rng) + "END\n")
    return b("".join(parts)), keys


# ------------------------------------------------------------------------------------------------ BASIC

BASIC_FUNCS = ["TOT", "MOL", "ACT", "LA", "LM", "SI", "SR", "EQUI", "KIN", "GAS", "SURF", "EDL", "S_S", "MISC1", "MISC2", "CELL_NO", "SIM_NO",
               "TOTAL_TIME", "TIME", "M", "M0", "PARM", "GET", "LK_SPECIES", "LK_PHASE", "LK_NAMED", "SUM_SPECIES", "SUM_GAS", "SUM_S_S", "SYS",
               "KAPPA", "GFW", "SOLN_VOL", "EQ_FRAC", "PHASE_FORMULA", "SPECIES_FORMULA", "LIST_S_S", "OSMOTIC", "PR_P", "PR_PHI", "CALC_VALUE",
               "DIFF_C", "SETDIFF_C", "VISCOS", "TC", "TK", "RHO", "EPS_R", "DH_A", "LG", "GAMMA", "DELTA_H_PHASE", "DELTA_H_SPECIES",
               "RATE_PK", "RATE_SVD", "RATE_HERMANSKA", "MEANG", "CURRENT_A", "POT_V", "KINETICS_FORMULA", "EQUI_DELTA", "KIN_DELTA", "ISO", "ISO_UNIT",
               "STR_F$", "STR_E$", "PAD$", "PAD", "TRIM", "LTRIM", "RTRIM", "MID$", "INSTR", "CHR$", "STR$", "VAL", "ASC", "LEN", "EOL$", "EOL_NOTAB$",
               "CEIL", "FLOOR", "LOG", "LOG10", "EXP", "SQRT", "SQR", "ARCTAN", "SIN", "COS", "ABS", "SGN", "ERASE", "CHANGE_POR", "CHANGE_SURF",
               "CALLBACK", "GRAPH_X", "GRAPH_Y", "GRAPH_SY", "PLOT_XY", "DESCRIPTION", "TITLE", "CHARGE_BALANCE", "PERCENT_ERROR", "ALK", "MU",
               "STEP_NO", "DIST", "RXN", "POROSITY", "TOTMOLE", "TOTMOL", "APHI", "QBRN", "VM", "SA_DECLERCQ", "DEBYE_LENGTH", "NO_NEWLINE$"]
BASIC_ARGS = ['"Na"', '"Cl-"', '"Calcite"', '"CO2(g)"', '"Hfo_w"', '"nosuch"', '""', '"' + "y" * 300 + '"', "1", "0", "-1", "1e308", "1e-320", "2147483648",
              "x", "a$", "x(1)", "1/0", "LOG(-1)", "SQRT(-1)", "0^-1", "10^400", "EXP(1000)", '"aq"', '"element"', "count", "name$", "type$", "moles", "3.5",
              "", ",", "(", ")", '"Ca', "TOT(\"Ca\")", "MID$(\"abc\", 2, 1)", "CHR$(300)", "CHR$(-1)", "STR$(1e300)", "VAL(\"x\")", "ASC(\"\")"]


def basic_expr(rng, depth=0):
    r = rng.random()
    if r < 0.4 or depth > 2:
        return rng.choice(BASIC_ARGS)
    if r < 0.75:
        f = rng.choice(BASIC_FUNCS)
        n = rng.choice([0, 1, 1, 1, 2, 3, 5])
        return f + rng.choice(["(", "(", "(", "", " ("]) + ", ".join(basic_expr(rng, depth + 1) for _ in range(n)) + rng.choice([")", ")", ")", "", "))"])
    return basic_expr(rng, depth + 1) + rng.choice([" + ", " - ", " * ", " / ", " ^ ", " < ", " = ", " AND ", " OR ", " MOD ", " <> ", " "]) + basic_expr(rng, depth + 1)


def basic_stmt(rng):
    r = rng.random()
    if r < 0.25:
        return rng.choice(["PUNCH ", "PRINT ", "SAVE ", "x = ", "a$ = ", "PUT(", "IF ", "GRAPH_Y ", "rate = ", "moles = "]) + basic_expr(rng) \
            + rng.choice(["", "", "", ")", " THEN GOTO 10", ", 1)", ";", ","])
    if r < 0.45:
        return rng.choice(["FOR i = 1 TO", "FOR i = 1 TO 3", "NEXT i", "NEXT", "WHILE", "WHILE 1", "WEND", "GOTO 10", "GOTO 99999", "GOSUB 500", "RETURN", "END",
                           "DIM a(10)", "DIM a(-1)", "DIM a(1e9)", "DIM a(1,2,3,4,5,6)", "a(11) = 1", "a(-1) = 1", "DATA 1,2", "READ x", "READ x, y, z, q$", "RESTORE 5",
                           "ON x GOTO 10, 20", "ON 5 GOSUB", "IF x THEN", "IF THEN", "ELSE", "REM x", "LET", "LET x", "STOP", "RUN", "NEW", "LIST", "BYE", "DEL 10",
                           "RENUM", "LOAD x", "SAVE", "INPUT x", "ERASE a", "ERASE", "x = = 1", "10 20", ":", "::::", "x=1:y=2:PUNCH x+y", "PUNCH", "PRINT",
                           "FOR i = 1 TO 1e9 : NEXT i" if False else "FOR i = 1 TO 3 : NEXT j", "GOSUB 10", "x$ = 1", "x = \"s\"", "PUNCH \"a\" + 1"])
    if r < 0.6:
        w = [rng.choice(BASIC_WORDS).upper() for _ in range(rng.randint(1, 6))]
        return " ".join(w)
    if r < 0.7:
        s = basic_stmt(rng)
        return s[:rng.randrange(len(s) + 1)]
    if r < 0.8:
        return rng.choice(["SYS(\"aq\", count, name$, type$, moles)", "SYS(\"Na\", n, n$, t$, m)", "SYS(\"equi\", 1, 2, 3, 4)", "SYS(\"\", c, n$, t$, m, 1)",
                           "SYS(\"aq\", count, name$, type$)", "x = SYS(\"kin\", c, n$, t$, m): PUNCH n$(c+5)", "PUNCH name$(0)", "PUNCH moles(1e9)",
                           "x = LIST_S_S(\"nosuch\", c, n$, m)", "x = KINETICS_FORMULA$(\"nosuch\", c, e$, k)", "x = PHASE_FORMULA$(\"Calcite\", c, e$, k, 5)",
                           "x = SPECIES_FORMULA$(\"CaHCO3+\", c, e$, k) : PUNCH e$(c + 1)", "x = EQ_FRAC(\"AlX3\", eq, x$)", "x = EDL_SPECIES(\"Hfo\", c, n$, m, a, t)",
                           "x = ISO(\"[18O]\")", "x$ = ISO_UNIT(\"nosuch\")", "PUT(1)", "PUT(1, 1, 2, 3, 4, 5, 6, 7, 8, 9, 10, 11, 12)", "PUNCH GET()", "PUNCH GET(1e30)",
                           "PUNCH GET(-5, 1e9)", "PUNCH EXISTS(1, 2)", "PUNCH EXISTS()", "x = CHANGE_POR(0.3, 99999)", "x = CHANGE_SURF(\"Hfo\", 2, \"Sorb\", 0, 1)",
                           "x = SETDIFF_C(\"Na+\", -1)", "PUNCH CALLBACK(1, 2, \"x\")", "PUNCH CALC_VALUE(\"nosuch\")", "PUNCH LK_NAMED(\"nosuch\")", "PUNCH PARM(99)",
                           "PUNCH PARM(-1)", "PUNCH PARM(1e10)", "PLOT_XY 1, 2, color = Red", "GRAPH_SY 1, 2"])
    return basic_expr(rng)


def basic_program(rng, save=False):
    n = rng.choice([1, 2, 3, 5, 8])
    L = []
    num = 0
    for _ in range(n):
        num += rng.choice([10, 10, 10, 1, 0, -5, 100000, 2147483647])
        pre = rng.choice([str(num), str(num), str(num), str(num), "", "-10", "1e3", "10.5", "99999999999"])
        L.append(f" {pre} {basic_stmt(rng)}")
    if save and rng.random() < 0.7:
        L.append(" %d SAVE %s" % (num + 10, rng.choice(['1e-3 * TIME', 'moles * TIME', 'x * TIME', '1e308 * TIME', '-1 * TIME', 'TOT("Na") * TIME', 'TIME'])))
    return L


def basic_input(rng):
    kind = rng.choice(["RATES", "USER_PUNCH", "USER_PRINT", "CALCULATE_VALUES", "USER_GRAPH", "RATES", "USER_PUNCH"])
    P = []
    wrap = rng.random()
    se = ("-start", "-end") if wrap < 0.7 else (("-start", "") if wrap < 0.8 else (("", "-end") if wrap < 0.9 else ("", "")))
    if kind == "RATES":
        P += ["RATES", " R1", " " + se[0]] + basic_program(rng, True) + [" " + se[1]]
        P += ["SOLUTION 1", " pH 7", " Na 1", " Cl 1", "KINETICS 1", " R1", "  -formula NaCl 1", f"  -parms {value(rng)} 2", "  -m0 1",
              f" -steps {rng.choice(['10', '10 in 2 steps', '0', '1e10', '-5', '1 2 3'])}", f" -cvode {rng.choice(BOOLS)}", "END"]
    elif kind == "CALCULATE_VALUES":
        P += ["CALCULATE_VALUES", " cv", " " + se[0]] + basic_program(rng, True) + [" " + se[1]]
        P += ["SOLUTION 1", " pH 7", " Na 1", " Cl 1", "SELECTED_OUTPUT 1", " -calculate_values cv", "USER_PRINT", " 10 PRINT CALC_VALUE(\"cv\")", "END"]
    elif kind == "USER_GRAPH":
        P += ["USER_GRAPH 1", " -headings a b", " " + se[0]] + basic_program(rng) + [" " + se[1], "SOLUTION 1", " Na 1", " Cl 1", "END"]
    else:
        P += ["SOLUTION 1", " pH 7", " Na 1", " Cl 1", " Ca 1", " C 2"]
        if kind == "USER_PUNCH":
            P += ["SELECTED_OUTPUT 1", " -reset false"]
        P += [kind + rng.choice(["", " 1", " 1", " 3"]), rng.choice([" -headings a b c", "", " -headings", " -head " + "h " * 300]), " " + se[0] if rng.random() < 0.3 else ""]
        P += basic_program(rng)
        if rng.random() < 0.3:
            P += [" " + se[1]]
        P += ["END"]
        if rng.random() < 0.4:
            P += ["USE solution 1", "REACTION 1", " NaCl 1", " 0.1 in 2 steps", "END"]
    t = b("\n".join(x for x in P if x != " ") + "\n")
    # the two tokens of the listed known finding must not reach judged programs
    t = re.sub(rb"(?i)peek|poke", b"pxxk", t)
    return t, kind


# ------------------------------------------------------------------------------------------------ unknown entities, extremes, bytes

def entities_input(rng):
    n = rng.choice(INTS_BAD[:12] + ["77", "3", "5-9"])
    T = [
        f"USE solution {n}\nEND\n", f"USE solution 1\nUSE equilibrium_phases {n}\nUSE exchange {n}\nUSE surface {n}\nUSE gas_phase {n}\nUSE kinetics {n}\nUSE mix {n}\nUSE reaction {n}\nEND\n",
        f"SOLUTION 1\n {rng.choice(BAD_NAMES)} 1\nEND\n", f"SOLUTION 1\n Na 1 {rng.choice(BAD_NAMES)}\n Cl 1 charge\n pH 7 {rng.choice(PHASES + BAD_NAMES)} {value(rng)}\nEND\n",
        f"{CONTEXT_OK}EQUILIBRIUM_PHASES 1\n {rng.choice(BAD_NAMES)} 0 1\nEND\n", f"{CONTEXT_OK}EQUILIBRIUM_PHASES 1\n Calcite 0 {rng.choice(PHASES + BAD_NAMES)} 1\nEND\n",
        f"{CONTEXT_OK}EXCHANGE 1\n {rng.choice(BAD_NAMES + SPECIES)} {value(rng)}\n -equilibrate {n}\nEND\n", f"{CONTEXT_OK}SURFACE 1\n {rng.choice(BAD_NAMES + ['Hfo_wOH', 'Hfo_w'])} {value(rng)} {value(rng)} {value(rng)}\n -equilibrate {n}\nEND\n",
        f"{CONTEXT_OK}GAS_PHASE 1\n -fixed_pressure\n {rng.choice(BAD_NAMES + PHASES)} {value(rng)}\nEND\n", f"{CONTEXT_OK}KINETICS 1\n {rng.choice(BAD_NAMES + ['Calcite', 'Nosuchrate'])}\n -m0 1\n -steps 1\nEND\n",
        f"{CONTEXT_OK}SOLID_SOLUTIONS 1\n ss\n -comp {rng.choice(BAD_NAMES + PHASES)} 0.1\n -comp Calcite {value(rng)}\nEND\n", f"{CONTEXT_OK}REACTION 1\n {rng.choice(BAD_NAMES + PHASES)} {value(rng)}\n {value(rng)} moles in {rng.choice(INTS_BAD)} steps\nEND\n",
        f"MIX 1\n {n} 0.5\n 1 {value(rng)}\nEND\n", f"{CONTEXT_OK}SAVE solution {n}\nSAVE exchange {n}\nEND\nCOPY solution {n} {rng.choice(INTS_BAD)}\nDELETE\n -solution {n}\n -cells {n}\nRUN_CELLS\n -cells {n}\nEND\n",
        f"{CONTEXT_OK}SELECTED_OUTPUT {n}\n -totals {rng.choice(BAD_NAMES)}\n -molalities {rng.choice(BAD_NAMES)}\n -si {rng.choice(BAD_NAMES)}\n -gases {rng.choice(BAD_NAMES)}\n -kinetic_reactants {rng.choice(BAD_NAMES)}\n -solid_solutions {rng.choice(BAD_NAMES)}\n -isotopes {rng.choice(BAD_NAMES)}\n -calculate_values {rng.choice(BAD_NAMES)}\nEND\n",
        f"{CONTEXT_OK}INVERSE_MODELING 1\n -solutions {n} 1\n -phases\n  {rng.choice(BAD_NAMES + PHASES)} {rng.choice(['', 'pre', 'dis', 'force', 'x'])}\n -balances\n  {rng.choice(BAD_NAMES)} {value(rng)}\n -isotopes\n  {rng.choice(BAD_NAMES + ['13C'])}\nEND\n",
        f"SOLUTION 0-{rng.choice(['3', '0', '-1', 'x'])}\n Na 1\n Cl 1\nEND\nTRANSPORT\n -cells {rng.choice(INTS_BAD)}\n -shifts {rng.choice(INTS_BAD[:8])}\n -lengths {value(rng)}\n -dispersivities {value(rng)}\n -stagnant {rng.choice(INTS_BAD[:6])} {value(rng)} {value(rng)} {value(rng)}\n -punch_cells {n}\n -print_cells {n}\nEND\n",
        f"SOLUTION 0-2\n Na 1\n Cl 1\nEND\nADVECTION\n -cells {rng.choice(INTS_BAD[:7] + ['2'])}\n -shifts {rng.choice(INTS_BAD[:7] + ['2'])}\n -punch_cells {n}\n -print_frequency {rng.choice(INTS_BAD)}\nEND\n",
        f"SOLUTION_MODIFY {n}\n -totals\n  {rng.choice(BAD_NAMES)} {value(rng)}\nEQUILIBRIUM_PHASES_MODIFY {n}\n -component {rng.choice(BAD_NAMES)}\n  -moles {value(rng)}\nEND\n",
        f"SOLUTION_SPECIES\n {rng.choice(BAD_NAMES)} + H+ = {rng.choice(BAD_NAMES)}\n log_k {value(rng)}\nSOLUTION_MASTER_SPECIES\n {rng.choice(BAD_NAMES)} {rng.choice(BAD_NAMES)} {value(rng)} {value(rng)} {value(rng)}\nPHASES\n {rng.choice(BAD_NAMES)}\n {rng.choice(BAD_NAMES)} = {rng.choice(SPECIES)}\n log_k {value(rng)}\nSOLUTION 1\nEND\n",
        f"INCLUDE$ {rng.choice(['nosuchfile.inc', '.', '..', 'x' * 300, ''])}\nSOLUTION 1\nEND\n",
        f"DATABASE {rng.choice(['nosuch.dat', '.', ''])}\nSOLUTION 1\nEND\n",
        f"{CONTEXT_OK}REACTION_TEMPERATURE 1\n {value(rng)} {value(rng)} in {rng.choice(INTS_BAD)} steps\nREACTION_PRESSURE 1\n {value(rng)} {value(rng)}\nUSE reaction_temperature {n}\nEND\n",
    ]
    return b(rng.choice(T)), "entities"


def extreme_input(rng):
    x = rng.choice(EXTREME)
    T = [f"SOLUTION 1\n temp {x}\n pH {x}\n pe {x}\n Na {x}\n Cl {x}\n -water {x}\n density {x}\n pressure {x}\nEND\n",
         f"SOLUTION 1\n Na 1\n Cl 1\nREACTION 1\n NaCl {x}\n {x} moles in {rng.choice(['1', x])} steps\nEND\n",
         f"SOLUTION 1\n Na 1\n Cl 1\nEQUILIBRIUM_PHASES 1\n Calcite {x} {x}\n CO2(g) {x} {x}\nEND\n",
         f"SOLUTION 1\n Na 1\n Cl 1\nREACTION_TEMPERATURE 1\n {x}\nREACTION_PRESSURE 1\n {x}\nEND\n",
         f"KNOBS\n -iterations {x}\n -tolerance {x}\n -step_size {x}\n -pe_step_size {x}\n -convergence_tolerance {x}\n -diagonal_scale {x}\nSOLUTION 1\n Na 1\nEND\n",
         f"SOLUTION 1\n Na 1\n Cl 1\nGAS_PHASE 1\n -pressure {x}\n -volume {x}\n -temperature {x}\n CO2(g) {x}\nEND\n",
         f"SOLUTION 1\n Na 1\n Cl 1\nSURFACE 1\n Hfo_wOH {x} {x} {x}\n -donnan {x}\nEXCHANGE 1\n X {x}\nEND\n",
         f"SOLUTION 1\n Na 1\n Cl 1\nKINETICS 1\n Calcite\n -m0 {x}\n -m {x}\n -tol {x}\n -parms {x} {x}\n -steps {x} in {rng.choice(['2', x])} steps\n -step_divide {x}\n -runge_kutta {x}\n -bad_step_max {x}\n -cvode_steps {x}\n -cvode_order {x}\nEND\n",
         f"SOLUTION 0-2\n Na 1\n Cl 1\nEND\nTRANSPORT\n -cells 2\n -shifts {rng.choice(['1', x])}\n -time_step {x}\n -lengths {x}\n -dispersivities {x}\n -diffusion_coefficient {x}\n -thermal_diffusion {x} {x}\n -initial_time {x}\n -multi_d true {x} {x} {x} {x}\n -porosities {x}\nEND\n",
         f"SOLUTION 1\n Na 1\nMIX 1\n 1 {x}\nEND\n", f"SOLUTION {x}\n Na 1\nEND\n", f"SOLUTION 1-{x}\n Na 1\nEND\n",
         f"PRINT\n -censor_species {x}\n -warnings {x}\n -status {x}\nSELECTED_OUTPUT {x}\n -high_precision {x}\nSOLUTION 1\nEND\n",
         f"SOLUTION_SPECIES\n H2O = OH- + H+\n log_k {x}\n delta_h {x}\n -analytic {x} {x} {x} {x} {x} {x}\n -gamma {x} {x}\n -dw {x} {x} {x}\n -Vm {x} {x} {x}\nSOLUTION 1\n Na 1\nEND\n",
         "SOLUTION 1\n " + "Na 1 " * rng.choice([100, 3000]) + "\nEND\n", "SOLUTION 1 " + "d" * rng.choice([300, 5000, 100000]) + "\nEND\n",
         "TITLE " + "t" * rng.choice([2000, 100000]) + "\nSOLUTION 1\nEND\n", "SOLUTION 1\n" + " Na 1\n" * rng.choice([500, 5000]) + "END\n",
         "SOLUTION 1\n " + "N" + "a" * rng.choice([255, 256, 1024, 5000]) + " 1\nEND\n", ("SOLUTION 1\nEND\n" * rng.choice([50, 400]))]
    return b(rng.choice(T)), "extreme"


def bytes_input(rng):
    r = rng.random()
    if r < 0.4:
        return rand_bytes(rng, rng.choice([1, 5, 50, 500, 5000])), "bytes-raw"
    if r < 0.7:
        # random bytes split into lines behind a keyword
        key = rng.choice(sorted(KEYWORDS))
        body = b"\n".join(b" " + rand_bytes(rng, rng.randint(0, 40)).replace(b"\n", b" ") for _ in range(rng.randint(1, 8)))
        return b(rng.choice(KEYWORDS[key]).upper()) + b" 1\n" + body + b"\nEND\n", "bytes-in-block"
    words = [weird_token(rng) for _ in range(rng.randint(1, 60))]
    return b"\n".join(b" ".join(words[i:i + 5]) for i in range(0, len(words), 5)) + b"\n", "token-soup"


# ------------------------------------------------------------------------------------------------ databases

MINI_DB = """SOLUTION_MASTER_SPECIES
H        H+     -1.  H        1.008
H(0)     H2     0.0  H
H(1)     H+     -1.  0.0
E        e-     0.0  0.0      0.0
O        H2O    0.0  O        16.00
O(0)     O2     0.0  O
O(-2)    H2O    0.0  0.0
Na       Na+    0.0  Na       22.9898
Cl       Cl-    0.0  Cl       35.453
Ca       Ca+2   0.0  Ca       40.08
C        CO3-2  2.0  HCO3     12.0111
C(+4)    CO3-2  2.0  HCO3
Alkalinity CO3-2 1.0 Ca0.5(CO3)0.5 50.05
SOLUTION_SPECIES
H+ = H+
 log_k 0.0
 -gamma 9.0 0.0
e- = e-
 log_k 0.0
H2O = H2O
 log_k 0.0
Na+ = Na+
 log_k 0.0
 -gamma 4.0 0.075
Cl- = Cl-
 log_k 0.0
 -gamma 3.5 0.015
Ca+2 = Ca+2
 log_k 0.0
 -gamma 5.0 0.1650
CO3-2 = CO3-2
 log_k 0.0
 -gamma 5.4 0.0
H2O = OH- + H+
 log_k -14.0
 delta_h 13.362 kcal
 -analytic -283.971 -0.05069842 13323.0 102.24447 -1119669.0
 -gamma 3.5 0.0
2 H2O = O2 + 4 H+ + 4 e-
 log_k -86.08
 delta_h 134.79 kcal
2 H+ + 2 e- = H2
 log_k -3.15
 delta_h -1.759 kcal
CO3-2 + H+ = HCO3-
 log_k 10.329
 delta_h -3.561 kcal
 -gamma 5.4 0.0
CO3-2 + 2 H+ = CO2 + H2O
 log_k 16.681
 delta_h -5.738 kcal
Ca+2 + CO3-2 = CaCO3
 log_k 3.224
PHASES
Calcite
 CaCO3 = CO3-2 + Ca+2
 log_k -8.48
 delta_h -2.297 kcal
CO2(g)
 CO2 = CO2
 log_k -1.468
 -T_c 304.2
 -P_c 72.86
 -Omega 0.225
Halite
 NaCl = Cl- + Na+
 log_k 1.570
EXCHANGE_MASTER_SPECIES
 X X-
EXCHANGE_SPECIES
 X- = X-
 log_k 0.0
 Na+ + X- = NaX
 log_k 0.0
 Ca+2 + 2X- = CaX2
 log_k 0.8
SURFACE_MASTER_SPECIES
 Hfo_w Hfo_wOH
SURFACE_SPECIES
 Hfo_wOH = Hfo_wOH
 log_k 0.0
 Hfo_wOH + H+ = Hfo_wOH2+
 log_k 7.29
RATES
Calcite
 -start
 10 si_cc = SI("Calcite")
 20 rate = PARM(1) * (1 - 10^si_cc)
 30 SAVE rate * TIME
 -end
END
"""


def database_text(rng):
    """(bytes, tag)"""
    r = rng.random()
    if r < 0.45:
        t, kinds = mutate(rng, b(MINI_DB))
        return t, "mini:" + "+".join(kinds)
    if r < 0.8:
        dbs = [d for d in sorted(DBDIR.glob("*.dat")) if d.stat().st_size < 800000]
        d = rng.choice(dbs)
        t, kinds = mutate(rng, d.read_bytes().replace(b"\0", b" "))
        return t, d.name + ":" + "+".join(kinds)
    if r < 0.9:
        t, keys = grammar_input(rng)
        return b(MINI_DB.replace("END\n", "")) + t, "mini+grammar"
    t, tag = bytes_input(rng)
    return t, "db-" + tag


# ------------------------------------------------------------------------------------------------ file-name faults

BAD_PATHS = ["nosuchdir/x.out", "/nonexistent_dir_c08/x", ".", "..", "", "/dev/full", "/dev/null/x", "x" * 300, "a\tb", " ", "dir_c08", "unreadable_c08",
             "\xff\xfe", "con:", "*?", "file with spaces.out"]


def file_case(rng):
    """dict(kind=..., ops=[...]) understood by props/c08.py (paths relative to the case's work directory)"""
    valid = "SOLUTION 1\n pH 7\n Na 1\n Cl 1\nSELECTED_OUTPUT 1\n -totals Na\nUSER_PUNCH 1\n -headings h\n 10 PUNCH 1\nDUMP\n -all\nEND\n"
    r = rng.random()
    p = rng.choice(BAD_PATHS)
    pin = p if not p.startswith("/dev/full") else "/dev/null"           # /dev/full is an endless stream of NULs when *read*
    if r < 0.2:
        return dict(kind="runfile-bad-path", ops=[("runfile_path", pin)])
    if r < 0.4:
        return dict(kind="loaddb-bad-path", ops=[("loaddb_path", pin)])
    if r < 0.7:
        which = rng.sample(["out", "err", "log", "dump", "sel"], rng.randint(1, 5))
        sw = [({"out": "outfile", "err": "errfile", "log": "logfile", "dump": "dumpfile", "sel": "selfile"}[w], 1) for w in which]
        text = valid if rng.random() < 0.7 else valid.replace("Na 1", "Xx 1\n -bogus")
        if rng.random() < 0.3:
            text = "KNOBS\n -logfile true\n" + text
        return dict(kind="unwritable-output", sw=sw, fn=[(w, rng.choice(BAD_PATHS)) for w in which], ops=[("run", b(text))])
    if r < 0.85:
        opt = rng.choice(["SELECTED_OUTPUT 1\n -file {p}\n -totals Na\n", "DUMP\n -file {p}\n -all\n", "INCLUDE$ {p}\n", "INCLUDE_FILE {p}\n",
                          "TRANSPORT\n -cells 2\n -dump {p}\n -dump_frequency 1\n", "USER_GRAPH 1\n -plot_tsv_file {p}\n", "DATABASE {p}\n"])
        p2 = rng.choice(["nosuchdir_c08/x.out", ".", "", "x" * 300, "dir_c08", "nosuch.inc", "a b"])
        return dict(kind="input-names-bad-file", ops=[("run", b("SOLUTION 0-2\n Na 1\n Cl 1\n" + opt.format(p=p2) + "END\n"))], sw=[("selfile", 1), ("dumpfile", 1)])
    return dict(kind="runfile-of-mutant", ops=[("runfile_text", None)])


# ------------------------------------------------------------------------------------------------ multi-simulation inputs, include files, histories

VALID_SIMS = ["SOLUTION 1\n pH 7\n Na 1\n Cl 1\nEND\n", "SOLUTION 2\n pH 8\n Ca 1\n C 2\nEQUILIBRIUM_PHASES 2\n Calcite 0 1\nSAVE solution 3\nEND\n",
              "SOLUTION 4\n K 1\n Cl 1\nSELECTED_OUTPUT 1\n -totals K\nUSER_PUNCH 1\n -headings k\n 10 PUNCH TOT(\"K\")\nEND\n",
              "SOLUTION 5\n Na 2\n Cl 2\nREACTION 5\n NaCl 1\n 0.1 in 2 steps\nEND\n", "TITLE t\nSOLUTION 6\nEXCHANGE 6\n X 0.1\n -equilibrate 6\nEND\n"]


def bad_sim(rng):
    """one simulation (bytes, ends with END) that is usually wrong"""
    r = rng.random()
    if r < 0.3:
        t, _ = entities_input(rng)
    elif r < 0.5:
        t, _ = basic_input(rng)
    elif r < 0.75:
        t, _ = grammar_input(rng)
    elif r < 0.85:
        t = b("SOLUTION 1\n pH 7\n Na 1\nEQUILIBRIUM_PHASES 1\n Nophase 0 1\nEND\n")
    else:
        f = vlib.REPO / "gtest" / "conv_fail.in"
        t = f.read_bytes() if f.exists() else b("USE solution 99\nEND\n")
    if not t.rstrip().upper().endswith(b"END"):
        t += b"\nEND\n"
    return t


def multisim_input(rng):
    """(text, files, tag): errors in non-final simulations, include files with errors inside / missing / nested / self-including"""
    kind = rng.choice(["bad-middle", "bad-first", "include-error-inside", "include-missing-middle", "include-nested-error", "include-self", "include-bad-then-more",
                       "include-no-newline", "bad-middle"])
    files = {}
    good = lambda: b(rng.choice(VALID_SIMS))
    if kind == "bad-middle":
        t = good() + bad_sim(rng) + good()
    elif kind == "bad-first":
        t = bad_sim(rng) + good() + good()
    elif kind == "include-error-inside":
        files["inc_a.pqi"] = good()[:-4] + bad_sim(rng)
        t = good() + b"INCLUDE$ inc_a.pqi\n" + good()
    elif kind == "include-missing-middle":
        t = good() + b"SOLUTION 9\n Na 1\n" + b(rng.choice(["INCLUDE$ nosuch_c08.inc\n", "include_file  nosuch dir/x\n", "INCLUDE$\n", "INCLUDE$ .\n", "INCLUDE$ dir_c08\n"])) + b"END\n" + good()
    elif kind == "include-nested-error":
        files["inc_b.pqi"] = bad_sim(rng)
        files["inc_a.pqi"] = b"SOLUTION 7\n Na 1\nINCLUDE$ inc_b.pqi\nEND\n" + good()
        t = b"INCLUDE$ inc_a.pqi\n" + good()
    elif kind == "include-self":
        files["inc_self.pqi"] = b"SOLUTION 8\n Na 1\nEND\nINCLUDE$ inc_self.pqi\n"
        t = good() + b"INCLUDE$ inc_self.pqi\n" + good()
    elif kind == "include-bad-then-more":
        files["inc_a.pqi"] = rand_bytes(rng, rng.choice([10, 200]))
        t = b"INCLUDE$ inc_a.pqi\n" + good() + bad_sim(rng)
    else:
        files["inc_a.pqi"] = b"SOLUTION 7\n Na 1\n Xx 1"            # no trailing newline, ends inside a block
        t = b"INCLUDE$ inc_a.pqi\n -bogus 3\nEND\n" + good()
    return t, files, kind


def shipped_databases():
    """[(path, ends_with_END)] for every shipped database"""
    out = []
    for d in sorted(DBDIR.glob("*.dat")):
        # read_database stops at the first END line; a database without one is read to end-of-file
        out.append((str(d), bool(re.search(rb"(?im)^[ \t]*END[ \t]*\r?$", d.read_bytes()))))
    return out


# ------------------------------------------------------------------------------------------------ numerical give-up paths

def numerics_input(rng):
    """inputs whose *calculation* gives up with an ERROR: CVODE out of internal steps / restarts, Runge-Kutta out of bad steps, Newton out of
    iterations — the error paths that free or keep solver memory"""
    rate = rng.choice(["1e-3 * M", "1e-3 * M", "1e3 * M", "1e6 * M * (1 - SR(\"Halite\"))", "M / (1e-9 + TOT(\"Na\"))", "-1e-3 * M", "1e-3 * M * TOT(\"Cl\")^2"])
    rates = f"RATES\nDecay\n-start\n10 rate = {rate}\n20 SAVE rate * TIME\n-end\n"
    pre = rng.choice(["", "", "EQUILIBRIUM_PHASES 1\n Calcite 0 1\n", "EXCHANGE 1\n X 0.1\n -equilibrate 1\n", "GAS_PHASE 1\n -fixed_volume\n CO2(g) 0.1\n",
                      "SURFACE 1\n Hfo_wOH 0.01 600 1\n -equilibrate 1\n"])
    steps = rng.choice(["1000 in 2", "1000 in 2", "1e6 in 3", "10", "1 10 100 1000", "1e9"])
    r = rng.random()
    if r < 0.55:
        kind = "cvode-exhaust"
        opts = f" -cvode true\n -cvode_steps {rng.choice([1, 1, 2, 3, 5])}\n -bad_step_max {rng.choice([1, 1, 2, 3])}\n -cvode_order {rng.choice([1, 2, 5])}\n"
    elif r < 0.8:
        kind = "rk-exhaust"
        opts = f" -cvode false\n -runge_kutta {rng.choice([1, 2, 3, 6])}\n -bad_step_max {rng.choice([1, 2, 5])}\n -tol {rng.choice(['1e-14', '1e-10', '1e-8'])}\n -step_divide {rng.choice([1, 2, 100])}\n"
    else:
        kind = "newton-exhaust"
        opts = " -cvode " + rng.choice(["true", "false"]) + "\n"
        pre = f"KNOBS\n -iterations {rng.choice([1, 2, 3])}\n -tolerance {rng.choice(['1e-18', '1e-15'])}\n -step_size {rng.choice([1.0001, 2, 100])}\n" + pre
    sims = rng.choice([1, 1, 2])
    t = "SOLUTION 1\n pH 7\n Na 1\n Cl 1\n Ca 1\n C 2\n" + pre + rates + f"KINETICS 1\nDecay\n -formula NaCl 1\n -m0 1\n -steps {steps}\n" + opts
    if rng.random() < 0.3:
        t += "INCREMENTAL_REACTIONS true\n"
    t += "END\n"
    if sims == 2:
        t += "SOLUTION 2\n Na 1\n Cl 1\nEND\n"
    return b(t), kind


# ------------------------------------------------------------------------------------------------ errors raised while a sink is mid-record

RUNTIME_ERRORS = ['PUNCH 1 + "x"', 'a$ = 1 + "x"', 'PUNCH TOT("Ca"', 'NEXT j', 'PUNCH MID$(5, 1)', 'x = "s"', 'PUNCH LEN(5)', 'PUNCH arr(99999)', 'PUNCH 1 +', 'GOTO 99998',
                  'RETURN', 'READ q', 'PUNCH CHR$("A")', 'WEND', 'PUNCH SQRT(', 'DIM z(-3)', 'PUNCH GET(', 'PUNCH CALC_VALUE("nosuch")', 'PUNCH LK_NAMED("nosuch")',
                  'PUNCH RATE_PK("nosuch")', 'PUNCH EQUI(', 'ON 5 GOTO', 'PUNCH STR_F$(1)', 'PUNCH PAD$("a")', 'PUNCH SYS("aq", 1, 2)']
CONDITIONS = ["", "", "IF STEP_NO = 2 THEN ", "IF CELL_NO = 2 THEN ", "IF SIM_NO = 2 THEN ", "IF TOTAL_TIME > 0 THEN ", "IF TOT(\"Na\") > 0.5 THEN ", "IF STEP_NO > 0 THEN "]


def midrecord_input(rng):
    """inputs whose ERROR is raised while a row / a print block / a dump is being written: BASIC run-time errors in USER_PUNCH, USER_PRINT,
    -calculate_values programs and RATES evaluated at punch time; during reaction steps, TRANSPORT/ADVECTION cells, a later simulation"""
    err = rng.choice(CONDITIONS) + rng.choice(RUNTIME_ERRORS)
    n = rng.choice([1, 1, 1, 2, 3])
    where = rng.choice(["user_punch", "user_punch", "user_punch", "calc_values", "user_print", "rates_in_punch", "user_punch_two_numbers"])
    sel = f"SELECTED_OUTPUT {n}\n -reset false\n -pH true\n -totals Na Cl\n" + (" -high_precision true\n" if rng.random() < 0.3 else "")
    prog = ""
    if where == "user_punch":
        prog = sel + f"USER_PUNCH {n}\n -headings a b\n 10 PUNCH 1\n 20 {err}\n 30 PUNCH 2\n"
    elif where == "user_punch_two_numbers":
        m = n + 1
        prog = sel + f"USER_PUNCH {n}\n -headings a\n 10 PUNCH 1\nSELECTED_OUTPUT {m}\n -reset false\n -pe true\nUSER_PUNCH {m}\n -headings b\n 10 {err}\n"
    elif where == "calc_values":
        prog = sel + f" -calculate_values cv\nCALCULATE_VALUES\ncv\n -start\n 10 {err.replace('PUNCH', 'x =')}\n 20 SAVE 1\n -end\n"
    elif where == "user_print":
        prog = sel + f"USER_PRINT\n 10 PRINT \"a\"\n 20 {err.replace('PUNCH', 'PRINT')}\n"
    else:
        prog = sel + f" -kinetic_reactants R1\nUSER_PUNCH {n}\n -headings k\n 10 PUNCH KIN(\"R1\")\nRATES\nR1\n -start\n 10 {err.replace('PUNCH', 'x =')}\n 20 SAVE 1e-6 * TIME\n -end\n" \
               "KINETICS 1\n R1\n -formula NaCl 1\n -m0 1\n -steps 10 in 2\n"
    ctx = rng.choice(["initial", "reaction", "reaction", "transport", "advection", "second-sim", "dump", "mix"])
    sol = "SOLUTION 1\n pH 7\n Na 1\n Cl 1\n Ca 1\n C 2\n"
    if ctx == "initial":
        t = sol + prog + "END\n"
    elif ctx == "reaction":
        t = sol + prog + "REACTION 1\n NaCl 1\n 0.1 0.2 0.3\nEND\n"
    elif ctx == "transport":
        t = "SOLUTION 0-3\n Na 1\n Cl 1\nEND\n" + prog + f"TRANSPORT\n -cells 3\n -shifts 2\n -punch_cells {rng.choice(['1-3', '2', '1 3'])}\n -punch_frequency {rng.choice([1, 2])}\nEND\n"
    elif ctx == "advection":
        t = "SOLUTION 0-3\n Na 1\n Cl 1\nEND\n" + prog + "ADVECTION\n -cells 3\n -shifts 2\n -punch_cells 1-3\nEND\n"
    elif ctx == "second-sim":
        t = sol + sel + "END\n" + prog.replace(sel, "") + "USE solution 1\nREACTION 1\n NaCl 1\n 1 mmol\nEND\n" + sol.replace("SOLUTION 1", "SOLUTION 2") + "END\n"
    elif ctx == "dump":
        t = sol + prog + f"DUMP\n -all\n -file dump_{n}.out\nSAVE solution 2\nEND\nDUMP\n -solution 2\nEND\n"
    else:
        t = sol + "SOLUTION 2\n K 1\n Cl 1\nEND\n" + prog + "MIX 1\n 1 0.5\n 2 0.5\nEND\n"
    if rng.random() < 0.15:
        t, _ = mutate(rng, b(t), 1)
    return b(t), f"{where}/{ctx}"


# ------------------------------------------------------------------------------------------------ definitions that refer to other definitions by name

def isotope_input(rng):
    """ISOTOPES / ISOTOPE_RATIOS / ISOTOPE_ALPHAS / CALCULATE_VALUES / NAMED_EXPRESSIONS blocks whose references are undefined, misspelt, of the wrong
    kind, defined too late or carried over from an earlier simulation — each such block ALONE in its simulation (no other model-defining keyword)
    followed by a speciation.  (text, database)"""
    good_cv = "CALCULATE_VALUES\n Alpha_one\n -start\n 10 SAVE 1.001\n -end\n"
    good_ne = "NAMED_EXPRESSIONS\n Log_alpha_one\n  log_k 0.001\n"
    name = rng.choice(["Alpha_undefined", "Alpha_onee", "alpha_one", "Log_alpha_one", "R(13C)_x", "Calcite", "Na+", "13C", "[13C]", "x" * 300, "1", "-", ""])
    sol = lambda n: f"SOLUTION {n}\n pH 7\n Na 1\n Cl 1\n" + rng.choice(["", " C 2\n", " [13C] 1\n", " D 1\n"]) + "END\n"
    bad = rng.choice([
        f"ISOTOPE_ALPHAS\n {name}\n", f"ISOTOPE_ALPHAS\n Alpha_one {name}\n", f"ISOTOPE_ALPHAS\n {name} {name}\n", f"ISOTOPE_ALPHAS\n {name} Log_alpha_one extra\n",
        f"ISOTOPE_RATIOS\n {name} 13C\n", f"ISOTOPE_RATIOS\n R(13C)_x {name}\n", f"ISOTOPE_RATIOS\n {name}\n",
        f"ISOTOPES\n {name}\n -isotope {name} permil 0.011\n", f"ISOTOPES\n C\n -isotope {name} {name} {name}\n", f"ISOTOPES\n {name}\n", f"ISOTOPES\n -isotope 13C permil\n",
        f"NAMED_EXPRESSIONS\n {name}\n  log_k {value(rng)}\n  -add_logk {name} 1\n", f"NAMED_EXPRESSIONS\n Log_x\n  -add_logk {name} {value(rng)}\n",
        f"CALCULATE_VALUES\n {name}\n -start\n 10 x = 1\n -end\n", f"CALCULATE_VALUES\n cvx\n -start\n 10 SAVE CALC_VALUE(\"{name}\")\n -end\nISOTOPE_ALPHAS\n cvx\n",
        f"CALCULATE_VALUES\n cvy\n -start\n 10 SAVE LK_NAMED(\"{name}\")\n -end\nISOTOPE_RATIOS\n cvy 13C\n",
        f"SELECTED_OUTPUT 1\n -isotopes {name}\n -calculate_values {name}\n"])
    shape = rng.choice(["alone-then-solution", "with-solution", "carried-over", "late", "print-off", "alone-then-reaction"])
    if shape == "alone-then-solution":
        t = bad + "END\n" + sol(1)
    elif shape == "with-solution":
        t = bad + sol(1)
    elif shape == "carried-over":
        t = good_cv + good_ne + "ISOTOPE_ALPHAS\n Alpha_one Log_alpha_one\n" + sol(1) + bad + sol(2)
    elif shape == "late":
        t = sol(1) + bad + "USE solution 1\nREACTION_TEMPERATURE 1\n 30\nEND\n"
    elif shape == "print-off":
        t = "PRINT\n -isotope_alphas false\n -isotope_ratios false\n" + bad + sol(1)
    else:
        t = sol(1) + bad + "END\nUSE solution 1\nREACTION 1\n NaCl 1\n 0.01\nEND\n"
    db = rng.choice([PHREEQC_DAT, PHREEQC_DAT, str(DBDIR / "iso.dat")])
    return b(t), db, shape
