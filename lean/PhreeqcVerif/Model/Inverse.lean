/-!
Model of PHREEQC inverse modelling (src/phreeqcpp/inverse.cpp) over `Rat`.

* `Problem`      – what `setup_inverse` reads: solutions (element totals per mass-balance row, water, pH data),
                   elements (master species rows with raw uncertainties), phases and redox reactions resolved to
                   rows, options.
* `setupMatrix`  – the rows of `my_array` that `setup_inverse` writes (optimisation rows, mole balances, water,
                   final fraction, charge balances, dAlk rows, epsilon / pH / water inequalities) as sparse linear
                   forms over typed unknowns `Var`; `signOf` is the `delta` vector (sign constraints);
                   `colIndex` is the dense column of an unknown (col_phases, col_redox, col_epsilon, col_ph, col_water).
                   Isotope rows/columns are NOT modelled (problems with `-isotopes` are outside this model).
* `Admissible`   – declarative admissibility of a model (property C18), `checkModel` its executable check.
* `search`       – the subset search of `solve_inverse` / `minimal_solve` over bit sets with the LP as an oracle.
-/
namespace PhreeqcVerif.Inverse

/-! ## sums -/

def sumR : List Rat → Rat
  | [] => 0
  | a :: l => a + sumR l

def rng (n : Nat) : List Nat := List.range n

def absR (a : Rat) : Rat := if a < 0 then -a else a

/-! ## problem -/

structure Soln where
  totals : List Rat      -- moles of each element row (master->total); e- is forced to 0 by the code
  water : Rat            -- mass_water / gfw_water
  phUnc : Rat
  dalkDph : Rat
  dalkDc : Rat
deriving Inhabited

structure Elt where
  isE : Bool             -- master->s == s_eminus
  isAlkM : Bool          -- master == master_alk
  alkName : Bool         -- element name begins with "Alkalinity"
  zalk : Rat             -- z + alk of the master species
  unc : List Rat         -- raw uncertainty per solution: > 0 fraction of the total, ≤ 0 minus the absolute bound
deriving Inhabited

structure Phase where
  stoich : List Rat      -- coefficient in each element row (the alkalinity row holds calc_alk)
  water : Rat            -- coefficient in the water row (used with -mineral_water true)
  constr : Int           -- 1 dissolve, -1 precipitate, 0 either
  force : Bool
deriving Inhabited

structure Redox where
  coef : List Rat
  water : Rat
deriving Inhabited

/-- an isotope for which a balance is requested (`inv_ptr->isotopes`) -/
structure IsoElt where
  name : String          -- element name as given in -isotopes (without valence)
  prim : String          -- name of the primary master of that element
  number : Rat
  isHO : Bool            -- the element is H or O (no "epsilon of total" terms)
deriving Inhabited

/-- one entry of `inv_ptr->isotope_unknowns` (a column per solution) -/
structure IsoUnk where
  master : String        -- element name of the master (valence state) the ratio belongs to
  number : Rat
deriving Inhabited

/-- isotope datum of a solution (`solution_ptr->Get_isotopes()`, in map order) -/
structure SolIso where
  master : String        -- master_bsearch(elt_name)->elt->name
  prim : String          -- master_bsearch_primary(elt_name)->elt->name
  number : Rat
  total : Rat
  ratio : Rat
  xunc : Rat             -- x_ratio_uncertainty (set by check_isotopes)
deriving Inhabited

/-- isotope datum of a phase (`inv_ptr->phases[i].isotopes`, sorted) -/
structure PhIso where
  name : String          -- elt_name as written with the phase
  prim : String
  number : Rat
  ratio : Rat
  coef : Rat
  unc : Rat
deriving Inhabited

structure Problem where
  solns : List Soln      -- last one is the final solution
  elts : List Elt
  phases : List Phase
  redox : List Redox
  tol : Rat              -- toler
  mineralWater : Bool
  waterUnc : Rat
  carbon : Bool
  iAlk : Nat
  iCarb : Option Nat
  range : Bool
  rowNames : List String := []            -- element name of every mass-balance row
  isos : List IsoElt := []
  isoUnk : List IsoUnk := []
  solIso : List (List SolIso) := []       -- per solution
  phIso : List (List PhIso) := []         -- per phase
deriving Inhabited

namespace Problem
variable (p : Problem)

def ns : Nat := p.solns.length
def ne : Nat := p.elts.length
def np : Nat := p.phases.length
def nr : Nat := p.redox.length

def elt (e : Nat) : Elt := p.elts.getD e default
def soln (q : Nat) : Soln := p.solns.getD q default

/-- total of element row `e` in solution `q` as entered in the array (electrons: 0) -/
def T (q e : Nat) : Rat := if (p.elt e).isE then 0 else (p.soln q).totals.getD e 0
/-- sign of a solution in the balances: final solution -1, the others +1 -/
def sgn (q : Nat) : Rat := if q + 1 = p.ns then -1 else 1
def nu (i e : Nat) : Rat := (p.phases.getD i default).stoich.getD e 0
def rho (k e : Nat) : Rat := (p.redox.getD k default).coef.getD e 0
def unc (q e : Nat) : Rat := (p.elt e).unc.getD q 0

/-- magnitude of the uncertainty bound (setup_inverse, "calculate magnitude of bound") -/
def rawBound (q e : Nat) : Rat :=
  let u := p.unc q e
  if u ≤ 0 then -u else absR (p.T q e * u)
def bound (q e : Nat) : Rat := if p.rawBound q e < p.tol then 0 else p.rawBound q e
/-- the epsilon column of (e, q) takes part in the model (not electrons, bound not zero) -/
def active (q e : Nat) : Bool := !(p.elt e).isE && decide (p.bound q e ≠ 0)
/-- bound in the negative direction -/
def lowBound (q e : Nat) : Rat :=
  let c := if p.bound q e ≤ p.tol then p.tol else p.bound q e
  if c > absR (p.T q e) && !(p.elt e).alkName then absR (p.T q e) + p.tol else c
def lowScale (q e : Nat) : Rat := if p.bound q e ≤ p.tol then 10 else 1
/-- charge coefficient of an element row -/
def zc (e : Nat) : Rat := if (p.elt e).isE then 0 else if (p.elt e).isAlkM then -1 else (p.elt e).zalk
def cbRaw (q : Nat) : Rat := sumR ((rng p.ne).map fun e => p.zc e * p.T q e)
def cb (q : Nat) : Rat := if absR (p.cbRaw q) < p.tol then 0 else p.cbRaw q
end Problem

def scaleEps : Rat := 1 / 1024      -- SCALE_EPSILON = .0009765625

/-! ## the matrix -/

inductive Var
  | soln (q : Nat) | phase (i : Nat) | redox (k : Nat) | eps (e q : Nat) | ph (q : Nat) | water
  | iso (q k : Nat)       -- adjustment of the isotope ratio of unknown `k` in solution `q` (times the mixing fraction)
  | phiso (i n : Nat)     -- adjustment of the ratio of isotope `n` in phase `i` (times the mole transfer)
deriving DecidableEq, Repr, Inhabited

inductive RowKind | opt | eq | le
deriving DecidableEq, Repr, Inhabited

structure Row where
  kind : RowKind
  coeffs : List (Var × Rat)
  rhs : Rat
deriving Inhabited

def Row.eval (x : Var → Rat) (r : Row) : Rat := sumR (r.coeffs.map fun vc => vc.2 * x vc.1)

namespace Problem
variable (p : Problem)

def epsCoef (q e : Nat) (c : Rat) : Rat := if p.active q e then c else 0

def mbRow (e : Nat) : Row :=
  { kind := .eq, rhs := 0,
    coeffs := (rng p.ns).map (fun q => (Var.soln q, p.sgn q * p.T q e)) ++
              (rng p.np).map (fun i => (Var.phase i, p.nu i e)) ++
              (rng p.nr).map (fun k => (Var.redox k, p.rho k e)) ++
              (rng p.ns).map (fun q => (Var.eps e q, p.epsCoef q e (p.sgn q))) }

def waterRow : Row :=
  { kind := .eq, rhs := 0,
    coeffs := (rng p.ns).map (fun q => (Var.soln q, p.sgn q * (p.soln q).water)) ++
              [(Var.water, if p.waterUnc > 0 then 1 else 0)] ++
              (rng p.np).map (fun i => (Var.phase i, if p.mineralWater then (p.phases.getD i default).water else 0)) ++
              (rng p.nr).map (fun k => (Var.redox k, if p.mineralWater then (p.redox.getD k default).water else 0)) }

def fractRow : Row := { kind := .eq, rhs := 1, coeffs := [(Var.soln (p.ns - 1), 1)] }

def chargeRow (q : Nat) : Row :=
  { kind := .eq, rhs := 0,
    coeffs := (Var.soln q, p.cb q) :: (rng p.ne).map (fun e => (Var.eps e q, p.epsCoef q e (p.zc e))) }

def dalkRow (q : Nat) : Row :=
  { kind := .eq, rhs := 0,
    coeffs :=
      if (p.soln q).dalkDph ≠ 0 ∨ (p.soln q).dalkDc ≠ 0 then
        [(Var.ph q, (p.soln q).dalkDph), (Var.eps p.iAlk q, p.epsCoef q p.iAlk (-1))] ++
        (match p.iCarb with
         | some c => [(Var.eps c q, p.epsCoef q c (p.soln q).dalkDc)]
         | none => [])
      else [] }

/-- rows "eps+" / "eps-" of one (solution, element) -/
def epsRows (q e : Nat) : List Row :=
  if p.active q e then
    { kind := .le, rhs := 0, coeffs := [(Var.eps e q, 1), (Var.soln q, -(p.bound q e))] } ::
    (if p.T q e = 0 then []
     else [{ kind := .le, rhs := 0,
             coeffs := [(Var.soln q, -(p.lowBound q e) * p.lowScale q e), (Var.eps e q, -(p.lowScale q e))] }])
  else []

def phRows (q : Nat) : List Row :=
  if p.carbon then
    [{ kind := .le, rhs := 0, coeffs := [(Var.ph q, 1), (Var.soln q, -(p.soln q).phUnc)] },
     { kind := .le, rhs := 0, coeffs := [(Var.ph q, -1), (Var.soln q, -(p.soln q).phUnc)] }]
  else []

def waterRows : List Row :=
  if p.waterUnc > 0 then
    [{ kind := .le, rhs := p.waterUnc, coeffs := [(Var.water, 1)] },
     { kind := .le, rhs := p.waterUnc, coeffs := [(Var.water, -1)] }]
  else []

/-! ### isotopes (isotope_balance_equation, the isotope part of setup_inverse, phase_isotope_inequalities) -/

def nIso : Nat := p.isos.length
def nIU : Nat := p.isoUnk.length
def solIsos (q : Nat) : List SolIso := p.solIso.getD q []
def phIsos (i : Nat) : List PhIso := p.phIso.getD i []

/-- solution isotopes of solution `q` that belong to requested isotope `n` (same primary master and number) -/
def solMatch (q n : Nat) : List SolIso :=
  let ie := p.isos.getD n default
  (p.solIsos q).filter fun si => si.prim == ie.prim && si.number == ie.number

/-- column of "epsilon of total moles of the valence state": the element row with the master's name; when there is
    none the index arithmetic of the code lands in the pH column of the solution -/
def epsVarOf (q : Nat) (master : String) : Var × Bool :=
  let k := p.rowNames.findIdx (· == master)
  if k < p.ne then (Var.eps k q, true) else (Var.ph q, false)

/-- last isotope unknown with that master and number (the search loop has no `break`) -/
def unkOf (si : SolIso) : Option Nat :=
  ((rng p.nIU).filter fun k => (p.isoUnk.getD k default).master == si.master && (p.isoUnk.getD k default).number == si.number).getLast?

/-- first datum of the phase for requested isotope `n` (primary master and number; `break`) -/
def phMatch (i n : Nat) : Option PhIso :=
  let ie := p.isos.getD n default
  (p.phIsos i).find? fun pi => pi.prim == ie.prim && pi.number == ie.number

/-- index of a phase datum in the requested isotopes (element NAME and number), as phase_isotope_inequalities finds it -/
def isoIndexOf (pi : PhIso) : Option Nat :=
  let k := p.isos.findIdx fun ie => ie.name == pi.name && ie.number == pi.number
  if k < p.nIso then some k else none

/-- data of phase `i` that phase_isotope_inequalities processes (it stops at the first datum that is not requested) -/
def phProcessed (i : Nat) : List (PhIso × Nat) :=
  ((p.phIsos i).map fun pi => (pi, p.isoIndexOf pi)).takeWhile (fun x => x.2.isSome) |>.map fun x => (x.1, x.2.getD 0)

/-- the phase-isotope column (i, n) is zeroed ("zero column if uncertainty is zero") -/
def phisoZero (i n : Nat) : Bool := (p.phProcessed i).any fun x => x.2 == n && x.1.unc == 0

/-- isotope mole balance of requested isotope `n`, linearised as the code writes it:
    Σ_q ±(α_q·T·R + R·ε_total + T·ε_ratio) + Σ_i (R_i·c_i·x_i + c_i·ε_ratio,i) = 0 -/
def isoRow (n : Nat) : Row :=
  { kind := .eq, rhs := 0,
    coeffs :=
      (rng p.ns).flatMap (fun q =>
        (Var.soln q, p.sgn q * sumR ((p.solMatch q n).map fun si => si.total * si.ratio)) ::
        ((if (p.isos.getD n default).isHO then [] else
            (p.solMatch q n).map fun si =>
              let ev := p.epsVarOf q si.master
              (ev.1, if ev.2 then (match ev.1 with | .eps k _ => p.epsCoef q k (p.sgn q * si.ratio) | _ => 0) else p.sgn q * si.ratio)) ++
         (p.solMatch q n).filterMap fun si => (p.unkOf si).map fun k => (Var.iso q k, p.sgn q * si.total))) ++
      (rng p.np).flatMap (fun i =>
        match p.phMatch i n with
        | some pi => [(Var.phase i, pi.ratio * pi.coef), (Var.phiso i n, if p.phisoZero i n then 0 else pi.coef)]
        | none => []) }

/-- first isotope datum of solution `q` for unknown `k` -/
def solIsoOf (q k : Nat) : Option SolIso :=
  let u := p.isoUnk.getD k default
  (p.solIsos q).find? fun si => si.master == u.master && si.number == u.number

def isoIneqRows (q k : Nat) : List Row :=
  match p.solIsoOf q k with
  | some si =>
    [{ kind := .le, rhs := 0, coeffs := [(Var.iso q k, 1), (Var.soln q, -si.xunc)] },
     { kind := .le, rhs := 0, coeffs := [(Var.iso q k, -1), (Var.soln q, -si.xunc)] }]
  | none => []

def phisoIneqRows (i : Nat) : List Row :=
  (p.phProcessed i).flatMap fun x =>
    let pi := x.1; let n := x.2
    let c := (p.phases.getD i default).constr
    if pi.unc = 0 then []
    else if c < 0 then
      [{ kind := .le, rhs := 0, coeffs := [(Var.phase i, pi.unc), (Var.phiso i n, 1)] },
       { kind := .le, rhs := 0, coeffs := [(Var.phase i, pi.unc), (Var.phiso i n, -1)] }]
    else if c > 0 then
      [{ kind := .le, rhs := 0, coeffs := [(Var.phase i, -pi.unc), (Var.phiso i n, -1)] },
       { kind := .le, rhs := 0, coeffs := [(Var.phase i, -pi.unc), (Var.phiso i n, 1)] }]
    else []

/-- optimisation row `r` (row index = column - col_epsilon) -/
def optRow (r : Nat) : Row :=
  { kind := .opt, rhs := 0,
    coeffs :=
      if r < p.ne * p.ns then
        let e := r / p.ns; let q := r % p.ns
        if p.active q e then [(Var.eps e q, scaleEps / p.bound q e)] else []
      else if r < p.ne * p.ns + p.ns then
        let q := r - p.ne * p.ns
        if p.carbon then [(Var.ph q, scaleEps / (p.soln q).phUnc)] else []
      else if r < p.ne * p.ns + p.ns + 1 then []
      else if r < p.ne * p.ns + p.ns + 1 + p.ns * p.nIU then
        let j := r - (p.ne * p.ns + p.ns + 1)
        let q := j / p.nIU; let k := j % p.nIU
        match p.solIsoOf q k with
        | some si => [(Var.iso q k, scaleEps / si.xunc)]
        | none => []
      else
        let j := r - (p.ne * p.ns + p.ns + 1 + p.ns * p.nIU)
        let i := j / p.nIso; let n := j % p.nIso
        match (p.phProcessed i).find? (fun x => x.2 == n) with
        | some x => if x.1.unc = 0 then [] else [(Var.phiso i n, scaleEps / x.1.unc)]
        | none => [] }

def countOptimize : Nat := p.ne * p.ns + p.ns + 1 + p.ns * p.nIU + p.nIso * p.np

def eqRows : List Row :=
  (rng p.ne).map p.mbRow ++ [p.waterRow, p.fractRow] ++ (rng p.ns).map p.chargeRow ++ (rng p.ns).map p.dalkRow ++
  (rng p.nIso).map p.isoRow

def leRows : List Row :=
  (rng p.ns).flatMap (fun q => (rng p.ne).flatMap (fun e => p.epsRows q e)) ++
  (rng p.ns).flatMap p.phRows ++ p.waterRows ++
  (rng p.ns).flatMap (fun q => (rng p.nIU).flatMap (fun k => p.isoIneqRows q k)) ++
  (rng p.np).flatMap p.phisoIneqRows

/-- all rows of `my_array` in the order `setup_inverse` writes them -/
def setupMatrix : List Row := (rng p.countOptimize).map p.optRow ++ p.eqRows ++ p.leRows

/-- the `delta` vector: +1 the unknown must be ≥ 0, -1 it must be ≤ 0, 0 free -/
def signOf : Var → Int
  | .soln q => if q + 1 < p.ns then 1 else 0
  | .phase i => (p.phases.getD i default).constr
  | .eps e q => if p.active q e && decide (p.T q e = 0) then 1 else 0
  | _ => 0

/-- every unknown of the problem, in column order -/
def vars : List Var :=
  (rng p.ns).map Var.soln ++ (rng p.np).map Var.phase ++ (rng p.nr).map Var.redox ++
  (rng p.ne).flatMap (fun e => (rng p.ns).map (fun q => Var.eps e q)) ++ (rng p.ns).map Var.ph ++ [Var.water] ++
  (rng p.ns).flatMap (fun q => (rng p.nIU).map (fun k => Var.iso q k)) ++
  (rng p.np).flatMap (fun i => (rng p.nIso).map (fun n => Var.phiso i n))

def colIndex : Var → Nat
  | .soln q => q
  | .phase i => p.ns + i
  | .redox k => p.ns + p.np + k
  | .eps e q => p.ns + p.np + p.nr + e * p.ns + q
  | .ph q => p.ns + p.np + p.nr + p.ne * p.ns + q
  | .water => p.ns + p.np + p.nr + p.ne * p.ns + p.ns
  | .iso q k => p.ns + p.np + p.nr + p.ne * p.ns + p.ns + 1 + q * p.nIU + k
  | .phiso i n => p.ns + p.np + p.nr + p.ne * p.ns + p.ns + 1 + p.ns * p.nIU + i * p.nIso + n

def ncol : Nat := p.ns + p.np + p.nr + p.ne * p.ns + p.ns + 1 + p.ns * p.nIU + p.np * p.nIso

/-- a vector satisfies the equalities, inequalities and sign constraints (what cl1 certifies with kode = 0) -/
def Satisfies (x : Var → Rat) : Prop :=
  (∀ r ∈ p.eqRows, r.eval x = r.rhs) ∧ (∀ r ∈ p.leRows, r.eval x ≤ r.rhs) ∧
  (∀ v ∈ p.vars, (p.signOf v > 0 → 0 ≤ x v) ∧ (p.signOf v < 0 → x v ≤ 0))
end Problem

/-! ## feasibility of a vector for the LP of a mask (`solve_with_mask`, `range`): executable test -/

namespace Problem
variable (p : Problem)

/-- `shrink`: does the column of this unknown survive for the bit set `mask` (phases low bits, solutions above)? -/
def inMask (mask : Nat) : Var → Bool
  | .phase i => mask.testBit i
  | .soln q => q + 1 = p.ns || mask.testBit (p.np + q)
  | .eps _ q => q + 1 = p.ns || mask.testBit (p.np + q)
  | .ph q => q + 1 = p.ns || mask.testBit (p.np + q)
  | .redox _ => true
  | .water => true
  | .iso q _ => q + 1 = p.ns || mask.testBit (p.np + q)
  | .phiso i _ => mask.testBit i

/-- the unknowns of dropped columns are zero -/
def ZeroOutside (mask : Nat) (x : Var → Rat) : Prop := ∀ v ∈ p.vars, p.inMask mask v = false → x v = 0

/-- feasible set of every LP that `solve_with_mask` / `range` build for `mask` -/
def Feasible (mask : Nat) (x : Var → Rat) : Prop := p.Satisfies x ∧ p.ZeroOutside mask x

/-- executable version of `Satisfies` with tolerance `t` (what test_cl1_solution re-tests) -/
def satB (t : Rat) (x : Var → Rat) : Bool :=
  p.eqRows.all (fun r => decide (absR (r.eval x - r.rhs) ≤ t)) &&
  p.leRows.all (fun r => decide (r.eval x ≤ r.rhs + t)) &&
  p.vars.all (fun v => (!decide (p.signOf v > 0) || decide (-t ≤ x v)) && (!decide (p.signOf v < 0) || decide (x v ≤ t)))

def zeroOutsideB (t : Rat) (mask : Nat) (x : Var → Rat) : Bool :=
  p.vars.all (fun v => p.inMask mask v || decide (absR (x v) ≤ t))

/-- the LP `range()` solves for column `v`: objective row (coefficient 1, right-hand side -R for the minimum, +R for the
    maximum) in place of the optimisation rows, all equalities and inequalities unchanged -/
def rangeLP (v : Var) (target : Rat) : List Row :=
  { kind := .opt, coeffs := [(v, 1)], rhs := target } :: (p.eqRows ++ p.leRows)
end Problem

/-! ## models and admissibility -/

structure Model where
  alpha : Nat → Rat          -- mixing fractions
  x : Nat → Rat              -- phase mole transfers
  r : Nat → Rat              -- redox mole transfers
  eps : Nat → Nat → Rat      -- eps e q = alpha q * (adjustment of element e in solution q)
  ph : Nat → Rat
  water : Rat
  iso : Nat → Nat → Rat := fun _ _ => 0      -- iso q k
  phiso : Nat → Nat → Rat := fun _ _ => 0    -- phiso i n
  minA : Nat → Rat
  maxA : Nat → Rat
  minX : Nat → Rat
  maxX : Nat → Rat

def Model.assign (m : Model) : Var → Rat
  | .soln q => m.alpha q
  | .phase i => m.x i
  | .redox k => m.r k
  | .eps e q => m.eps e q
  | .ph q => m.ph q
  | .water => m.water
  | .iso q k => m.iso q k
  | .phiso i n => m.phiso i n

def decode (x : Var → Rat) (mn mx : Var → Rat) : Model :=
  { alpha := fun q => x (.soln q), x := fun i => x (.phase i), r := fun k => x (.redox k),
    eps := fun e q => x (.eps e q), ph := fun q => x (.ph q), water := x .water,
    iso := fun q k => x (.iso q k), phiso := fun i n => x (.phiso i n),
    minA := fun q => mn (.soln q), maxA := fun q => mx (.soln q),
    minX := fun i => mn (.phase i), maxX := fun i => mx (.phase i) }

namespace Problem
variable (p : Problem)

/-- mole-balance residual of element row `e`:
    Σ_q ±(α_q T_qe + ε_qe) + Σ_i ν_ie x_i + Σ_k ρ_ke r_k  (final solution with sign -1) -/
def mbRes (m : Model) (e : Nat) : Rat :=
  sumR ((rng p.ns).map fun q => p.sgn q * p.T q e * m.alpha q) +
  sumR ((rng p.np).map fun i => p.nu i e * m.x i) +
  sumR ((rng p.nr).map fun k => p.rho k e * m.r k) +
  sumR ((rng p.ns).map fun q => p.epsCoef q e (p.sgn q) * m.eps e q)

/-- the mole-balance part of the property (tolerance `t` on every relation; `t = 0` is the exact statement) -/
structure Balanced (t : Rat) (m : Model) : Prop where
  mb : ∀ e, e < p.ne → absR (p.mbRes m e) ≤ t
  epsUp : ∀ q e, q < p.ns → e < p.ne → p.active q e = true → m.eps e q ≤ p.bound q e * m.alpha q + t
  epsLow : ∀ q e, q < p.ns → e < p.ne → p.active q e = true →
            (p.T q e = 0 → -t ≤ m.eps e q) ∧ (p.T q e ≠ 0 → -(m.eps e q) ≤ p.lowBound q e * m.alpha q + t)
  alphaNonneg : ∀ q, q + 1 < p.ns → -t ≤ m.alpha q
  alphaFinal : absR (m.alpha (p.ns - 1) - 1) ≤ t
  dissolve : ∀ i, i < p.np → (p.phases.getD i default).constr > 0 → -t ≤ m.x i
  precipitate : ∀ i, i < p.np → (p.phases.getD i default).constr < 0 → m.x i ≤ t

structure InRange (t : Rat) (m : Model) : Prop where
  alpha : ∀ q, q < p.ns → m.minA q - t ≤ m.alpha q ∧ m.alpha q ≤ m.maxA q + t
  phase : ∀ i, i < p.np → m.minX i - t ≤ m.x i ∧ m.x i ≤ m.maxX i + t

/-- isotope part of a model: the (linearised) isotope mole balances hold, every adjustment of a solution's isotope
    ratio is within its uncertainty (times the mixing fraction), every adjustment of a phase's ratio within its uncertainty
    (times the magnitude of the transfer; only for phases constrained to dissolve or precipitate) -/
structure IsoBalanced (t : Rat) (m : Model) : Prop where
  mb : ∀ n, n < p.nIso → absR ((p.isoRow n).eval m.assign) ≤ t
  sol : ∀ q k si, q < p.ns → k < p.nIU → p.solIsoOf q k = some si →
          m.iso q k ≤ si.xunc * m.alpha q + t ∧ -(m.iso q k) ≤ si.xunc * m.alpha q + t
  phase : ∀ i pi n, i < p.np → (pi, n) ∈ p.phProcessed i → pi.unc ≠ 0 →
          ((p.phases.getD i default).constr < 0 → m.phiso i n ≤ -(pi.unc * m.x i) + t ∧ -(m.phiso i n) ≤ -(pi.unc * m.x i) + t) ∧
          ((p.phases.getD i default).constr > 0 → m.phiso i n ≤ pi.unc * m.x i + t ∧ -(m.phiso i n) ≤ pi.unc * m.x i + t)

def checkIso (t : Rat) (m : Model) : Bool :=
  (rng p.nIso).all (fun n => decide (absR ((p.isoRow n).eval m.assign) ≤ t)) &&
  (rng p.ns).all (fun q => (rng p.nIU).all (fun k =>
    match p.solIsoOf q k with
    | some si => decide (m.iso q k ≤ si.xunc * m.alpha q + t) && decide (-(m.iso q k) ≤ si.xunc * m.alpha q + t)
    | none => true)) &&
  (rng p.np).all (fun i => (p.phProcessed i).all fun x =>
    x.1.unc == 0 ||
    ((!decide ((p.phases.getD i default).constr < 0) ||
        (decide (m.phiso i x.2 ≤ -(x.1.unc * m.x i) + t) && decide (-(m.phiso i x.2) ≤ -(x.1.unc * m.x i) + t))) &&
     (!decide ((p.phases.getD i default).constr > 0) ||
        (decide (m.phiso i x.2 ≤ x.1.unc * m.x i + t) && decide (-(m.phiso i x.2) ≤ x.1.unc * m.x i + t)))))

def Admissible (t : Rat) (m : Model) : Prop := p.Balanced t m ∧ (p.range = true → p.InRange t m)

def allLt (n : Nat) (f : Nat → Bool) : Bool := (rng n).all f

def checkBalanced (t : Rat) (m : Model) : Bool :=
  allLt p.ne (fun e => decide (absR (p.mbRes m e) ≤ t)) &&
  allLt p.ns (fun q => allLt p.ne (fun e => !p.active q e ||
    (decide (m.eps e q ≤ p.bound q e * m.alpha q + t) &&
     (if p.T q e = 0 then decide (-t ≤ m.eps e q) else decide (-(m.eps e q) ≤ p.lowBound q e * m.alpha q + t))))) &&
  allLt (p.ns - 1) (fun q => decide (-t ≤ m.alpha q)) &&
  decide (absR (m.alpha (p.ns - 1) - 1) ≤ t) &&
  allLt p.np (fun i =>
    (!decide ((p.phases.getD i default).constr > 0) || decide (-t ≤ m.x i)) &&
    (!decide ((p.phases.getD i default).constr < 0) || decide (m.x i ≤ t)))

def checkRange (t : Rat) (m : Model) : Bool :=
  allLt p.ns (fun q => decide (m.minA q - t ≤ m.alpha q) && decide (m.alpha q ≤ m.maxA q + t)) &&
  allLt p.np (fun i => decide (m.minX i - t ≤ m.x i) && decide (m.x i ≤ m.maxX i + t))

/-- executable admissibility check -/
def checkModel (t : Rat) (m : Model) : Bool := p.checkBalanced t m && (!p.range || p.checkRange t m)

/-- charge balance and water balance residuals (reported as extra diagnostics; part of `Satisfies`) -/
def chargeRes (m : Model) (q : Nat) : Rat := (p.chargeRow q).eval m.assign
def waterRes (m : Model) : Rat := p.waterRow.eval m.assign
end Problem

/-! ## phases and redox reactions from reaction tokens (setup_inverse, "mass_balance: phase data / redox reaction data") -/

/-- tokens `(row, token coefficient, master coefficient)`: row ≥ 0 an element row, -1 water, other values skipped (H+);
    a master coefficient ≤ 0 counts as 1; the alkalinity row is overwritten with `calc_alk` -/
def Phase.ofTokens (ne iAlk : Nat) (toks : List (Int × Rat × Rat)) (alk : Rat) (constr : Int) (force : Bool) : Phase :=
  let acc := toks.foldl (fun (acc : List Rat × Rat) (t : Int × Rat × Rat) =>
      let cm := if t.2.2 ≤ 0 then 1 else t.2.2
      if t.1 ≥ 0 then (acc.1.set t.1.toNat (t.2.1 * cm), acc.2)
      else if t.1 = -1 then (acc.1, t.2.1 * cm) else acc) (List.replicate ne (0 : Rat), (0 : Rat))
  { stoich := acc.1.set iAlk alk, water := acc.2, constr := constr, force := force }

/-- tokens `(row, coefficient)` of `rxn_primary` (token 0 included); all but token 0 are divided by the master
    coefficient; the alkalinity row is `(calc_alk - s->alk) / coef` -/
def Redox.ofTokens (ne iAlk : Nat) (toks : List (Int × Rat)) (coef alk salk : Rat) : Redox :=
  let acc := (toks.zipIdx).foldl (fun (acc : List Rat × Rat) (tj : (Int × Rat) × Nat) =>
      let v := if tj.2 = 0 then tj.1.2 else tj.1.2 / coef
      if tj.1.1 ≥ 0 then (acc.1.set tj.1.1.toNat v, acc.2)
      else if tj.1.1 = -1 then (acc.1, v) else acc) (List.replicate ne (0 : Rat), (0 : Rat))
  { coef := acc.1.set iAlk ((alk - salk) / coef), water := acc.2 }

/-! ## tidy_inverse: which uncertainty list every element row gets (-uncertainty, -balances) -/

/-- a mass-balance row: its master species and the primary master of its element (ids) -/
structure RowId where
  master : Nat
  primary : Nat
deriving Inhabited, DecidableEq

/-- a `-balances` entry after the first part of tidy_inverse (list already completed to all solutions):
    `element p` = the name of a redox element (primary master with secondary masters), `row m` = any other master -/
inductive BalTarget
  | element (prim : Nat)
  | row (master : Nat)
deriving Inhabited, DecidableEq

structure BalEntry where
  target : BalTarget
  unc : List Rat
deriving Inhabited

/-- completion of a list read from the input: empty → the defaults, short → padded with its last value -/
def padUnc (ns : Nat) (given dflt : List Rat) : List Rat :=
  match given.getLast? with
  | none => dflt
  | some l => given ++ List.replicate (ns - given.length) l

/-- "copy primary redox to all secondary redox": every row of the element gets the list -/
def stepElem (rows : List RowId) (u : Nat → List Rat) (en : BalEntry) : Nat → List Rat :=
  match en.target with
  | .element p => fun i => if (rows.getD i default).primary = p ∧ i < rows.length then en.unc else u i
  | .row _ => u

/-- "copy masters that are not primary redox": the first row with that master gets the list (`break`) -/
def stepRow (rows : List RowId) (u : Nat → List Rat) (en : BalEntry) : Nat → List Rat :=
  match en.target with
  | .element _ => u
  | .row m => fun i => if i = rows.findIdx (fun r => r.master = m) ∧ i < rows.length then en.unc else u i

/-- uncertainties of row `i` after tidy_inverse: defaults, then all element-wide entries, then all row entries -/
def propagateUnc (rows : List RowId) (dflt : List Rat) (entries : List BalEntry) : Nat → List Rat :=
  entries.foldl (stepRow rows) (entries.foldl (stepElem rows) (fun _ => dflt))

/-- a master species as far as setup_inverse looks at it: element name, coefficient, is it H+ / H2O -/
structure MasterInfo where
  name : String
  coef : Rat
  isH : Bool
  isH2O : Bool
deriving Inhabited

/-- setup_inverse, reaction tokens: the master of a species is its secondary master if it has one, else its primary
    (names, "" = none); H+ is skipped (-2), H2O goes to the water row (-1), any other master to the element row with that
    name (-3 when it is not a row). Returns (row, master coefficient). -/
def resolveToken (rowNames : List String) (masters : List MasterInfo) (sec prim : String) : Int × Rat :=
  let nm := if sec ≠ "" then sec else prim
  match masters.find? (fun m => m.name == nm) with
  | none => (-3, 0)
  | some m =>
    if m.isH then (-2, m.coef)
    else if m.isH2O then (-1, m.coef)
    else
      let i := rowNames.findIdx (· == nm)
      if i < rowNames.length then (Int.ofNat i, m.coef) else (-3, m.coef)

/-! ## the subset search (`solve_inverse`, `minimal_solve`, `next_set_phases`, bit-set helpers) -/

/-- `a ⊆ b` on bit sets: `(a | b) == b` -/
def subsetOf (a b : Nat) : Bool := (a ||| b) == b

/-- the LP as an oracle: mask ↦ (kode = 0, bit set of the non-zero fractions / transfers of the solution) -/
abbrev Oracle := Nat → Bool × Nat

structure SearchCfg where
  nph : Nat
  nsol : Nat
  minimal : Bool
  range : Bool
  forced : Nat           -- bits of `force`d phases and solutions (used by `range` only)
deriving Inhabited

structure SState where
  good : List Nat := []
  bad : List Nat := []
  minimal : List Nat := []
  reported : List Nat := []    -- bit sets of the printed / punched models, in order
  calls : Nat := 0             -- count_calls
  first : Bool := true
  quit : Bool := true
  stop : Bool := false
deriving Inhabited

def subsetBad (st : SState) (bits : Nat) : Bool := st.bad.any fun b => subsetOf bits b
def subsetMinimal (st : SState) (bits : Nat) : Bool := st.minimal.any fun m => subsetOf bits m
def supersetMinimal (st : SState) (bits : Nat) : Bool := st.minimal.any fun m => subsetOf m bits

def SearchCfg.nbits (c : SearchCfg) : Nat := c.nph + c.nsol

/-- two cl1 calls per member (other than the final solution) of the model plus forced members -/
def rangeCalls (c : SearchCfg) (bits : Nat) : Nat :=
  if c.range then
    2 * ((rng (c.nbits - 1)).filter fun i => (bits ||| c.forced).testBit i).length
  else 0

/-- save_good + range + print_model + punch_model -/
def report (c : SearchCfg) (st : SState) (bits : Nat) : SState :=
  { st with good := st.good ++ [bits], reported := st.reported ++ [bits], calls := st.calls + rangeCalls c bits }

/-- one pass of the loop in `minimal_solve` for bit `i` -/
def minimalStep (o : Oracle) (sb : SState × Nat) (i : Nat) : SState × Nat :=
  let (st, bits) := sb
  if !bits.testBit i then (st, bits)
  else
    let t := bits ^^^ (1 <<< i)
    if subsetBad st t then (st, bits)
    else
      let st := { st with calls := st.calls + 1 }
      if (o t).1 then (st, t) else ({ st with bad := st.bad ++ [t] }, bits)

/-- `minimal_solve`: remove members one at a time (never the final solution), then solve once more and
    return the bit set of what is actually non-zero -/
def minimalSolve (o : Oracle) (c : SearchCfg) (st : SState) (bits : Nat) : SState × Nat :=
  let (st, bits) := (rng (c.nbits - 1)).foldl (minimalStep o) (st, bits)
  ({ st with calls := st.calls + 1 }, (o bits).2)

/-- body of the `while (next_set_phases …)` loop of `solve_inverse` for one `current_bits` -/
def step (o : Oracle) (c : SearchCfg) (st : SState) (cur : Nat) : SState :=
  if subsetBad st cur || subsetMinimal st cur then st
  else
    let st := { st with quit := false }
    if c.minimal && supersetMinimal st cur then st
    else
      let res := o cur
      let st := { st with calls := st.calls + 1 }
      if !res.1 then
        let st := { st with bad := st.bad ++ [cur] }
        if st.first then { st with quit := true, stop := true } else st
      else
        let st := { st with first := false }
        let goodBits := cur &&& res.2
        let st := if !st.good.contains goodBits && !c.minimal then report c st goodBits else st
        if supersetMinimal st goodBits then st
        else
          let (st, mb) := minimalSolve o c st goodBits
          let st := if !st.good.contains mb then report c st mb else st
          { st with minimal := st.minimal ++ [mb] }

/-- `next_set_phases` (not the first call): advance the combination `now` of `k` out of `n` phases -/
def nextCombo (n k : Nat) (now : Array Nat) : Option (Array Nat) :=
  let rec go (i : Nat) : Option (Array Nat) :=
    match i with
    | 0 => none
    | i' + 1 =>
      if now.getD i' 0 < n - k + i' then
        let v := now.getD i' 0 + 1
        some ((rng k).foldl (fun a j => if j ≥ i' then a.setIfInBounds j (v + (j - i')) else a) now)
      else go i'
  go k

def comboBits (now : Array Nat) : Nat := now.foldl (fun acc j => acc + (1 <<< j)) 0

/-- phase bit sets of all models with `k` of `n` phases, in the order `next_set_phases` produces them -/
def combos (n k : Nat) : List Nat :=
  if k > n then [] else
  let rec go (fuel : Nat) (now : Array Nat) (acc : List Nat) : List Nat :=
    match fuel with
    | 0 => acc.reverse
    | f + 1 =>
      match nextCombo n k now with
      | none => acc.reverse
      | some nw => go f nw (comboBits nw :: acc)
  let first := Array.range k
  go (2 ^ n) first [comboBits first]

def sizeLoop (o : Oracle) (c : SearchCfg) (solnBits : Nat) (st : SState) (size : Nat) : SState :=
  if st.stop then st else
  let st := { st with quit := true }
  let st := (combos c.nph size).foldl
    (fun st pb => if st.stop then st else step o c st ((solnBits <<< c.nph) + pb)) st
  if st.quit then { st with stop := true } else st

def solnLoop (o : Oracle) (c : SearchCfg) (st : SState) (solnBits : Nat) : SState :=
  ((rng (c.nph + 1)).reverse).foldl (sizeLoop o c solnBits) { st with stop := false }

/-- all combinations of initial solutions with the final solution, descending -/
def solnSets (nsol : Nat) : List Nat := ((rng (2 ^ (nsol - 1) - 1)).map fun j => 2 ^ (nsol - 1) + j + 1).reverse

/-- `solve_inverse` (count_calls starts with the `count_solns` calls of `check_solns`) -/
def search (o : Oracle) (c : SearchCfg) : SState :=
  (solnSets c.nsol).foldl (solnLoop o c) { calls := c.nsol }

end PhreeqcVerif.Inverse
