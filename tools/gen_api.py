"""Translator (C13): wrapper tables of the C binding (src/IPhreeqcLib.cpp) and of the Fortran binding
(src/IPhreeqc_interface_F.cpp, cross-checked with the bind(C) declarations of IPhreeqc_interface.F90 and with the
declarations and doc comments of IPhreeqc.h / IPhreeqc_interface_F.h) → lean/PhreeqcVerif/Gen/ApiTable.lean.

What is a wrapper is decided by the PUBLIC HEADERS: a function defined in IPhreeqcLib.cpp is a wrapper iff IPhreeqc.h
declares it; everything else in that file (file-static functions, `IPhreeqcLib::` members) is a helper and is only read when a
wrapper delegates to it (followed one level).  Facts are extracted by a small interpreter over the statement structure of
each body (if / else / return / switch / try, constant propagation for locals), run once with "the looked-up pointer is null"
and once with "it is not", so nested-if and early-return shapes, renamed locals, reordered case labels and definitions, C and
C++ casts, 0 / NULL / nullptr, named integer constants give the same facts.  A fact that cannot be brought into one of the
recognised normal forms is emitted as UNKNOWN (`shape = "?…"`, argument `"?"`): the static obligation then says nothing about
that wrapper, the check reports it in the evidence and relies on the behavioural tie (every function is called through the
three bindings on live and dead ids).  Nothing in here raises for an unfamiliar function body."""
import re

import vlib


def strip_comments(src):
    src = re.sub(r"/\*.*?\*/", lambda m: "\n" * m.group(0).count("\n"), src, flags=re.S)
    src = re.sub(r"//[^\n]*", "", src)
    return src


INT_CONST = re.compile(r"^[ \t]*(?:static\s+)?(?:const\s+(?:static\s+)?|constexpr\s+)(?:unsigned\s+|signed\s+)?(?:int|long|short|size_t|unsigned)\s+(\w+)\s*=\s*(-?\d+)[uUlL]*\s*;", re.M)
INT_DEFINE = re.compile(r"^[ \t]*#\s*define\s+(\w+)\s+\(?(-?\d+)[uUlL]*\)?[ \t]*$", re.M)


def substitute_constants(src):
    """named integer constants of the file (`static const int N = 1;`, `#define N 1`, enumerators with explicit values) are
    replaced by their values, so that `(*n) - FORTRAN_INDEX_BASE` reads `(*n) - 1`"""
    consts = dict(INT_CONST.findall(src))
    consts.update(dict(INT_DEFINE.findall(src)))
    for body in re.findall(r"\benum\b[^{;]*\{([^}]*)\}", src):
        for n, v in re.findall(r"(\w+)\s*=\s*(-?\d+)", body):
            consts.setdefault(n, v)
    src = INT_CONST.sub(lambda m: "", src)
    for n, v in consts.items():
        src = re.sub(r"\b" + re.escape(n) + r"\b", v, src)
    return src, consts


def functions(src):
    """top-level function definitions: (ret, name, params_text, body)"""
    out = []
    pat = re.compile(r"^([A-Za-z_][\w \t\*&:<>]*?)[ \t]*\n?[ \t]*([A-Za-z_][\w:]*)\s*\(((?:[^()]|\((?:[^()]|\([^()]*\))*\))*)\)\s*(?:const\s*)?\{", re.M)
    for m in pat.finditer(src):
        if re.search(r"\b(if|while|for|switch|return|else|catch)\b", m.group(1) + " " + m.group(2)):
            continue
        i = m.end()
        depth = 1
        while depth and i < len(src):
            depth += src[i] == "{"
            depth -= src[i] == "}"
            i += 1
        out.append((" ".join(m.group(1).split()), m.group(2), m.group(3).strip(), src[m.end():i - 1]))
    return out


def split_args(s):
    args, depth, cur = [], 0, ""
    for ch in s:
        if ch == "," and depth == 0:
            args.append(cur.strip())
            cur = ""
        else:
            depth += ch in "(["
            depth -= ch in ")]"
            cur += ch
    if cur.strip():
        args.append(cur.strip())
    return args


def params(ptxt):
    if ptxt in ("", "void"):
        return []
    res = []
    for p in split_args(ptxt):
        p = " ".join(p.split())
        fp = re.match(r"[\w\s\*]+\(\s*\*\s*(\w+)\s*\)\s*\(.*\)$", p)
        if fp:
            res.append(("fnptr", fp.group(1)))
            continue
        m = re.match(r"(.*?[\*\s])(\w+)$", p)
        if not m:
            res.append((p, ""))
        else:
            res.append((m.group(1).replace(" ", ""), m.group(2)))
    return res


def match_close(s, i, op="(", cl=")"):
    """index just behind the bracket that closes the one opened at s[i]"""
    depth = 0
    while i < len(s):
        depth += s[i] == op
        depth -= s[i] == cl
        i += 1
        if depth == 0:
            return i
    return len(s)


def call_args(body, start):
    """text between the parenthesis opening just before `start` and its match"""
    return body[start:match_close(body, start - 1) - 1]


def lean_str(s):
    return '"' + s.replace("\\", "\\\\").replace('"', '\\"').replace("\n", "\\n") + '"'


def lean_list(xs):
    return "[" + ", ".join(xs) + "]"


# ------------------------------------------------------------------------------------------------ expressions
CAST = re.compile(r"(?:static_cast|reinterpret_cast|const_cast)\s*<[^<>]*(?:<[^<>]*>[^<>]*)*>\s*")
CCAST = re.compile(r"\(\s*(?:const\s+)?(?:unsigned\s+|signed\s+)?(?:int|long|short|char|bool|size_t|double|float|unsigned|IPQ_RESULT|VRESULT)\s*\*?\s*\)")
FCAST = re.compile(r"\b(?:size_t|int|bool|long|unsigned)\s*(?=\()")


def strip_outer_parens(e):
    while e.startswith("(") and match_close(e, 0) == len(e):
        e = e[1:-1]
    return e


def canon(e):
    """canonical text of a small expression: no blanks, no casts, 0 for NULL/nullptr, no redundant outer parentheses,
    `(*x)` for a dereferenced name"""
    e = re.sub(r"\s+", "", CAST.sub("", " " + e))
    e = CCAST.sub("", e)
    e = FCAST.sub("", e)
    e = re.sub(r"\b(nullptr|NULL)\b", "0", e)
    e = strip_outer_parens(e)
    e = re.sub(r"(?<![\w>\]])\((\w+)\)", r"\1", e)       # (x) -> x   (not the argument list of a call)
    e = re.sub(r"(?<![\w>\]])\(\*(\w+)\)", r"*\1", e)    # (*x) -> *x
    return strip_outer_parens(e)


def canon_bool_of_int(e, names):
    """`value != 0` and its spellings -> "value!=0"; None if not one of them"""
    e = canon(e)
    for n in names:
        if e in (f"{n}!=0", f"0!={n}", f"!!{n}", f"{n}?true:false", f"{n}?1:0", f"!({n}==0)", f"!(0=={n})"):
            return f"{n}!=0"
    return None


# ------------------------------------------------------------------------------------------------ statements
def parse_stmts(s):
    """statement list of a function body (text between the braces): ('if', cond, then, else) ('return', expr)
    ('switch', expr, text) ('try', stmts, [catch stmts]) ('block', stmts) ('stmt', text)"""
    out, i, n = [], 0, len(s)

    def skip_ws(i):
        while i < n and s[i].isspace():
            i += 1
        return i

    def one(i):
        i = skip_ws(i)
        if i >= n:
            return None, i
        if s[i] == "{":
            j = match_close(s, i, "{", "}")
            return ("block", parse_stmts(s[i + 1:j - 1])), j
        m = re.compile(r"(if|switch|while|for)\s*\(").match(s, i)
        if m:
            j = match_close(s, m.end() - 1)
            cond = s[m.end():j - 1]
            if m.group(1) == "switch":
                k = skip_ws(j)
                e = match_close(s, k, "{", "}") if k < n and s[k] == "{" else k
                return ("switch", cond, s[k + 1:e - 1]), e
            body, j = one(j)
            body = body[1] if body and body[0] == "block" else ([body] if body else [])
            if m.group(1) != "if":
                return ("loop", cond, body), j
            k = skip_ws(j)
            els = []
            m2 = re.compile(r"else\b").match(s, k)
            if m2:
                eb, j = one(m2.end())
                els = eb[1] if eb and eb[0] == "block" else ([eb] if eb else [])
            return ("if", cond, body, els), j
        m = re.compile(r"try\b").match(s, i)
        if m:
            blk, j = one(m.end())
            catches = []
            while True:
                k = skip_ws(j)
                m2 = re.compile(r"catch\s*\(").match(s, k)
                if not m2:
                    break
                k = match_close(s, m2.end() - 1)
                cb, j = one(k)
                catches.append(cb[1] if cb and cb[0] == "block" else [cb])
            return ("try", blk[1] if blk and blk[0] == "block" else [blk], catches), j
        m = re.compile(r"return\b").match(s, i)
        j = i
        depth = 0
        while j < n and not (s[j] == ";" and depth == 0):
            depth += s[j] in "([{"
            depth -= s[j] in ")]}"
            j += 1
        text = s[i:j].strip()
        if m:
            return ("return", text[6:].strip()), j + 1
        return ("stmt", text), j + 1

    while True:
        st, i = one(i)
        if st is None:
            break
        if st != ("stmt", ""):
            out.append(st)
    return out


LOOKUP = re.compile(r"(?:\w[\w\s\*]*?[\s\*])?(\w+)\s*=\s*IPhreeqcLib\s*::\s*GetInstance\s*\(\s*(\w+)\s*\)$")


class Run:
    """one abstract execution of a body: the pointer obtained from GetInstance is null (`live=False`) or not"""

    def __init__(self, live, id_nonneg=None):
        self.live, self.id_nonneg = live, id_nonneg
        self.outcomes = set()           # resolved return values ("" = falls off the end / plain return)
        self.deleted = False
        self.ptrs = set()
        self.strings = {}

    def truth(self, cond, env):
        c = canon(cond)
        m = LOOKUP.match(" ".join(cond.split()))
        if m:
            self.ptrs.add(m.group(1))
            env[m.group(1)] = "<ptr>"
            return self.live
        for p in [v for v, val in env.items() if val == "<ptr>"]:
            if c in (p, f"{p}!=0", f"0!={p}"):
                return self.live
            if c in (f"!{p}", f"{p}==0", f"0=={p}"):
                return not self.live
        if self.id_nonneg is not None:
            if c in ("id>=0", "0<=id", "id>-1", "-1<id"):
                return self.id_nonneg
            if c in ("id<0", "0>id", "id<=-1", "-1>=id"):
                return not self.id_nonneg
        return None

    def value(self, e, env):
        c = canon(e)
        if c in env and env[c] not in (None, "<ptr>"):
            return env[c]
        return c

    def stmt(self, text, env):
        t = " ".join(text.split())
        m = LOOKUP.match(t)
        if m:
            self.ptrs.add(m.group(1))
            env[m.group(1)] = "<ptr>"
            return
        m = re.match(r"static const char (\w+)\s*\[\s*\]\s*=\s*\"((?:[^\"\\]|\\.)*)\"$", t)
        if m:
            self.strings[m.group(1)] = m.group(2).encode().decode("unicode_escape")
            env[m.group(1)] = m.group(1)
            return
        m = re.match(r"delete\s+(\w+)$", t)
        if m and env.get(m.group(1)) == "<ptr>" and self.live:
            self.deleted = True
            return
        m = re.match(r"(?:[\w:<>\*&\s]+?[\s\*&])?(\w+)\s*=\s*([\w\-]+)$", t)        # T v = CONST;  /  v = CONST;
        if m and not re.match(r"^(return|delete|throw)\b", t):
            env[m.group(1)] = env.get(m.group(2), m.group(2)) if env.get(m.group(2)) not in (None, "<ptr>") else m.group(2)
            return
        m = re.match(r"(?:[\w:<>\*&\s]+?[\s\*&])?(\w+)\s*=", t)
        if m:
            env[m.group(1)] = None          # assigned something we do not follow

    def block(self, stmts, env):
        """returns False when every path through the statements has returned"""
        for st in stmts:
            k = st[0]
            if k == "return":
                self.outcomes.add(self.value(st[1], env) if st[1] else "")
                return False
            if k == "stmt":
                self.stmt(st[1], env)
            elif k == "block":
                if not self.block(st[1], env):
                    return False
            elif k == "if":
                t = self.truth(st[1], env)
                if t is True:
                    if not self.block(st[2], env):
                        return False
                elif t is False:
                    if not self.block(st[3], env):
                        return False
                else:
                    e1, e2 = dict(env), dict(env)
                    c1, c2 = self.block(st[2], e1), self.block(st[3], e2)
                    if not c1 and not c2:
                        return False
                    live_envs = [e for e, c in ((e1, c1), (e2, c2)) if c]
                    for v in set().union(*[set(e) for e in live_envs]):
                        vals = {e.get(v) for e in live_envs}
                        env[v] = vals.pop() if len(vals) == 1 else None
            elif k == "switch":
                for r in re.findall(r"\breturn\s+([^;]*);", st[2]):
                    self.outcomes.add(self.value(r, env))
            elif k == "loop":
                e1 = dict(env)
                self.block(st[2], e1)
                for v in e1:
                    if e1[v] != env.get(v):
                        env[v] = None
            elif k == "try":
                if not self.block(st[1], env):
                    cont = False
                    for c in st[2]:
                        cont = self.block(c, dict(env)) or cont
                    if not cont:
                        return False
                else:
                    for c in st[2]:
                        self.block(c, dict(env))
        return True

    def run(self, body):
        env = {}
        if self.block(parse_stmts(body), env):
            self.outcomes.add("")
        return self


def strip_pp(body):
    return re.sub(r"^[ \t]*#[^\n]*", "", body, flags=re.M)


def one(s):
    return next(iter(s)) if len(s) == 1 else None


def case_pairs(text):
    return sorted(set(re.findall(r"case\s+(VR_\w+)\s*:\s*return\s+(IPQ_\w+)", text)))


def extract_wrapper(name, ret, ps, body, helpers):
    """facts of one C wrapper; never raises for an unfamiliar body (shape "?…" instead)"""
    body = strip_pp(body)
    w = dict(name=name, ret=ret, params=ps, calls=[], lookups=[], bad="?", bad_text="", bad_is_static=False, trans=[], shape="ok")
    w["lookups"] = re.findall(r"IPhreeqcLib\s*::\s*(\w+)\s*\(\s*(\w*)\s*\)", body)
    w["lookups"] += [("static " + m, a) for m, a in re.findall(r"\bIPhreeqc\s*::\s*(\w+)\s*\(\s*(\w*)\s*\)", body)]
    dead, live = Run(False).run(body), Run(True, True).run(body)
    ptrs = dead.ptrs | live.ptrs
    pnames = [p[1] for p in ps]
    # forwarded method call(s) on the looked-up object, arguments in normal form
    for p in sorted(ptrs):
        for m in re.finditer(r"\b" + p + r"\s*->\s*(\w+)\s*\(", body):
            args = []
            for a in split_args(call_args(body, m.end())):
                c = canon(a)
                b = canon_bool_of_int(a, pnames)
                args.append(c if c in pnames else (b if b else "?"))
            w["calls"].append((m.group(1), args))
    # result translation: in the body or, one level down, in a helper the body hands the method's result to
    text = body
    for h, hb in helpers.items():
        if "::" not in h and re.search(r"\b" + h + r"\s*\(", body):
            text += "\n" + strip_pp(hb)
    w["trans"] = case_pairs(text)
    # result for an id that is not live
    if name in ("DestroyIPhreeqc", "CreateIPhreeqc", "GetVersionString"):
        return w
    if not ptrs:
        w["shape"] = "?no GetInstance lookup recognised"
        return w
    bad = one(dead.outcomes)
    if bad is None:
        w["shape"] = "?result for a null instance not unique: " + ",".join(sorted(dead.outcomes))
        return w
    w["bad"] = bad
    if bad in dead.strings:
        w["bad_is_static"], w["bad_text"] = True, dead.strings[bad]
    return w


HELPER_FACT_KEYS = ["create.oom", "create.returnsIndex", "destroy.deletes", "destroy.live", "destroy.notlive", "getinstance.finds",
                    "getinstance.returns"]


def helper_facts(helpers):
    """semantic facts of the three registry helpers (each "?" when the shape is not recognised; never raises)"""
    f = {k: "?" for k in HELPER_FACT_KEYS}
    for part in (_destroy_facts, _getinstance_facts, _create_facts):
        try:
            f.update(part(helpers))
        except Exception:
            pass
    return f


def _destroy_facts(helpers):
    f = {}
    d = strip_pp(helpers.get("IPhreeqcLib::DestroyIPhreeqc", ""))
    dead = [Run(False, n).run(d) for n in (True, False)]
    neg = Run(True, False).run(d)
    live = Run(True, True).run(d)
    dead_out = set().union(*[r.outcomes for r in dead]) | neg.outcomes
    f["destroy.notlive"] = one(dead_out) or "?"
    f["destroy.live"] = one(live.outcomes) or "?"
    f["destroy.deletes"] = "yes" if live.deleted and not neg.deleted and not any(r.deleted for r in dead) else "?"
    return f


def _getinstance_facts(helpers):
    f = {}
    g = canon_body(helpers.get("IPhreeqcLib::GetInstance", ""))
    m = re.search(r"(\w+)=IPhreeqc::Instances\.find\((\w+)\)", g)
    key_ok = bool(m) and (m.group(2) == "id" or re.search(r"\b" + m.group(2) + r"=id;", g) is not None)
    f["getinstance.finds"] = "yes" if key_ok else "?"
    it = re.escape(m.group(1)) if m else "<none>"
    r = re.search(r"return(\w+);\}?$", g)
    rv = re.escape(r.group(1)) if r else None
    f["getinstance.returns"] = "yes" if rv and re.search(r"\b" + rv + r"=(?:\*" + it + r"\.|\(\*" + it + r"\)\.|" + it + r"->)second;", g) and \
        re.search(r"\b" + rv + r"=0;", g) else "?"
    return f


def _create_facts(helpers):
    f = {}
    c = canon_body(helpers.get("IPhreeqcLib::CreateIPhreeqc", ""))
    m = re.search(r"(\w+)=newIPhreeqc(?:\(\))?;", c)
    f["create.returnsIndex"] = "?"
    if m:
        p = m.group(1)
        m2 = re.search(r"(\w+)=" + p + r"->Index;", c)
        if m2 and re.search(r"return" + m2.group(1) + r";\}?$", c):
            f["create.returnsIndex"] = "yes"
        elif re.search(r"return" + p + r"->Index;", c):
            f["create.returnsIndex"] = "yes"
    m = re.search(r"catch\([^)]*bad_alloc[^)]*\)\{return(\w+);\}", c)
    f["create.oom"] = m.group(1) if m else "?"
    return f


def canon_body(b):
    """body text without blanks, casts, declarations' type words kept out of the way of the `x=…;` patterns"""
    b = CAST.sub("", strip_pp(b))
    b = CCAST.sub("", b)
    b = re.sub(r"\b(nullptr|NULL)\b", "0", b)
    b = re.sub(r"\b(const|typename|volatile)\b", " ", b)
    b = FCAST.sub("", b)
    b = re.sub(r"(?<![\w>\]])\(\s*(\w+)\s*\)", r"\1", b)
    b = re.sub(r"(?<![\w>\]])\(\s*\*\s*(\w+)\s*\)", r"*\1", b)
    b = re.sub(r"(?<![\w>\]])\(\s*(\w+\s*->\s*\w+)\s*\)", r"\1", b)
    # drop the type in front of a declared name:  T<...>::it x = e;  ->  x=e;
    b = re.sub(r"(?<![\w>])(?:[A-Za-z_][\w:]*(?:<[^;=]*?>)?(?:::\w+)*[\s\*&]+)+(\w+)\s*=", r"\1=", b)
    return re.sub(r"\s+", "", b)


def extract_c(src, wrapper_names):
    """(wrappers declared in the public header, helpers = every other function of the file)"""
    fns = functions(src)
    helpers = {name: body for ret, name, ptxt, body in fns if name not in wrapper_names}
    ws, seen = [], set()
    for ret, name, ptxt, body in fns:
        if name not in wrapper_names:
            continue
        ret = " ".join(ret.replace("static", "").replace("extern", "").split()).replace(" *", "*")
        ps = params(ptxt)
        try:
            w = extract_wrapper(name, ret, ps, body, helpers)
        except Exception as e:                                   # never die on an unfamiliar body
            w = dict(name=name, ret=ret, params=ps, calls=[], lookups=[], bad="?", bad_text="", bad_is_static=False, trans=[],
                     shape="?extraction failed: " + type(e).__name__)
        if name in seen:
            # the two #ifdef variants of SetBasicFortranCallback: keep one entry; differing facts make the shape unknown
            old = next(x for x in ws if x["name"] == name)
            if old != w:
                old["shape"] = "?two definitions with different facts"
            continue
        seen.add(name)
        ws.append(w)
    return sorted(ws, key=lambda w: w["name"]), helpers


F_ARG = re.compile(r"^(\*\w+|\w+|\*\w+-1|&\w+)$")


def extract_f(src, names):
    ws, seen = [], set()
    for ret, name, ptxt, body in functions(src):
        if name not in names:
            continue
        body = strip_pp(body)
        if name == "GetSelectedOutputValueF":
            # canonical names for its three locals (column index, VAR, text buffer), whatever they are called
            for pat, canon_name in ((r"\bint\s+(\w+)\s*=\s*\(?\s*\*\s*col\s*\)?\s*-\s*1\s*;", "adjcol"), (r"\bVAR\s+(\w+)\s*;", "v"),
                                    (r"\bchar\s+(\w+)\s*\[", "buffer")):
                mm = re.search(pat, body)
                if mm and mm.group(1) != canon_name:
                    body = re.sub(r"\b" + mm.group(1) + r"\b", canon_name, body)
        ps = params(ptxt)
        w = dict(name=name, ret=" ".join(ret.split()).replace(" *", "*"), params=ps, calls=[], pads=[], rows_minus_heading=False, rows_guard="",
                 adjcol=False, shape="ok")
        try:
            locals_ = {m.group(1): m.group(2).strip() for m in re.finditer(r"(?:const\s+)?(?:char|int)\s*\*?\s*(?:const\s+)?(\w+)\s*=\s*([^;]+);", body)}

            def arg(a):
                c = canon(a)
                return c if F_ARG.match(c) else "?"
            for m in re.finditer(r"::\s*(\w+)\s*\(", body):
                if m.group(1) in ("snprintf", "VarClear", "strncpy", "VarInit"):
                    continue
                w["calls"].append((m.group(1), [arg(a) for a in split_args(call_args(body, m.end()))]))
            for m in re.finditer(r"\bpadfstring\s*\(", body):
                pa = []
                for a in split_args(call_args(body, m.end())):
                    a = locals_.get(a.strip(), a) if re.match(r"^\w+$", a.strip()) and "::" in locals_.get(a.strip(), "") else a
                    mm = re.match(r"^\s*::\s*(\w+)\s*\((.*)\)\s*$", a, re.S)
                    if mm:
                        pa.append("::" + mm.group(1) + "(" + ",".join(arg(x) for x in split_args(mm.group(2))) + ")")
                    else:
                        pa.append(re.sub(r"\s+", "", a))
                w["pads"].append(pa)
            cb = canon_body(body)
            if name == "GetSelectedOutputRowCountF":
                m = re.search(r"if\((rows>0|0<rows)\)\{?(rows-=1|rows=rows-1|--rows|rows--);", cb)
                if m:
                    w["rows_minus_heading"], w["rows_guard"] = True, "rows > 0"
                elif re.search(r"rows", cb) and not re.search(r"rows(-=|=rows-|--)|--rows", cb):
                    pass                                              # no adjustment at all: a known (wrong) shape
                else:
                    w["shape"] = "?row-count adjustment not in a recognised form"
            else:
                w["rows_minus_heading"] = bool(re.search(r"rows(-=1|=rows-1|--)|--rows", cb))
            w["adjcol"] = bool(re.search(r"adjcol=\*col-1;", cb))
        except Exception as e:
            w["shape"] = "?extraction failed: " + type(e).__name__
        if name in seen:
            old = next(x for x in ws if x["name"] == name)
            if old != w:
                old["shape"] = "?two definitions with different facts"
            continue
        seen.add(name)
        ws.append(w)
    return sorted(ws, key=lambda w: w["name"])


def header_decls(src):
    """IPQ_DLL_EXPORT declarations of a header: (name, return type, number of parameters), comments stripped"""
    out = []
    for m in re.finditer(r"IPQ_DLL_EXPORT\s+([\w\s\*]+?)\s*\b(\w+)\s*\(((?:[^()]|\([^()]*\))*)\)\s*;", strip_comments(src)):
        ret = " ".join(m.group(1).split()).replace(" *", "*")
        ps = [] if m.group(3).strip() in ("", "void") else split_args(m.group(3))
        d = (m.group(2), ret, len(ps))
        if d not in out:
            out.append(d)
    return sorted(out)


def doc_facts(src):
    """what the doc comment in front of each declaration of IPhreeqc.h says about results (mechanical reading):
    the @retval names, "a negative value indicates an error", the one-based note for Fortran, zero-based index parameter,
    "empty string if n is out of range" """
    out = {}
    for m in re.finditer(r"/\*\*(.*?)\*/\s*IPQ_DLL_EXPORT\s+[^;(]*?\b(\w+)\s*\(", src, re.S):
        doc, name = m.group(1), m.group(2)
        # a doc block may contain an embedded declaration in an #ifdef example; the regex takes the nearest /** ... */
        doc = doc[doc.rfind("/**") + 3:] if "/**" in doc else doc
        retvals = sorted(set(re.findall(r"@retval\s+(IPQ_\w+)", doc)))
        out.setdefault(name, (name, retvals,
                              bool(re.search(r"negative value indicates an error", doc)),
                              bool(re.search(r"one-based for the Fortran interface", doc, re.I)),
                              bool(re.search(r"@param\s+n\s+The zero-based index", doc)),
                              bool(re.search(r"empty string if n is out of range", doc, re.I))))
    return sorted(out.values())


def extract_f90(src):
    """bind(C, NAME=...) targets of the Fortran module, with the number of dummy arguments"""
    out = []
    for m in re.finditer(r"(?:FUNCTION|SUBROUTINE)\s+(\w+)\s*\(([^)]*)\)\s*&?\s*\n?\s*BIND\s*\(\s*C\s*,\s*NAME\s*=\s*'(\w+)'\s*\)",
                         src, re.I):
        nargs = len([a for a in m.group(2).replace("&", "").split(",") if a.strip()])
        out.append((m.group(3), nargs))
    return sorted(set(out))


def generate(ctx=None):
    hdr = (vlib.REPO / "src" / "IPhreeqc.h").read_text(errors="replace")
    hdr_f = (vlib.REPO / "src" / "IPhreeqc_interface_F.h").read_text(errors="replace")
    hdecls, fdecls, facts = header_decls(hdr), header_decls(hdr_f), doc_facts(hdr)
    src_c, consts_c = substitute_constants(strip_comments((vlib.REPO / "src" / "IPhreeqcLib.cpp").read_text(errors="replace")))
    src_f, consts_f = substitute_constants(strip_comments((vlib.REPO / "src" / "IPhreeqc_interface_F.cpp").read_text(errors="replace")))
    f90 = (vlib.REPO / "src" / "IPhreeqc_interface.F90").read_text(errors="replace")
    cw, helpers = extract_c(src_c, {d[0] for d in hdecls})
    fw = extract_f(src_f, {d[0] for d in fdecls})
    binds = extract_f90(f90)
    hf = helper_facts(helpers)
    unknown = [f"{w['name']}: {w['shape'][1:]}" for w in cw + fw if w["shape"] != "ok"]
    unknown += [f"{w['name']}: argument of {c[0]} not in normal form" for w in cw + fw for c in w["calls"] if "?" in c[1]]
    unknown += [f"helper fact {k} not recognised" for k, v in sorted(hf.items()) if v == "?"]
    L = ["/- GENERATED by tools/gen_api.py from src/IPhreeqcLib.cpp, src/IPhreeqc_interface_F.cpp, src/IPhreeqc_interface.F90,",
         "   src/IPhreeqc.h and src/IPhreeqc_interface_F.h — do not edit. `shape` = \"ok\" or \"?reason\" (facts of that function could",
         "   not be brought into a recognised normal form: the obligations say nothing about it, the behavioural tie does);",
         "   an argument \"?\" is an expression outside the normal forms (parameter, `p != 0`, `*p`, `(*n)-1`, `&v`). -/",
         "namespace PhreeqcVerif.Gen.Api", "",
         "structure CW where", "  name : String", "  ret : String", "  params : List (String × String)",
         "  calls : List (String × List String)", "  lookups : List (String × String)", "  bad : String",
         "  badIsStatic : Bool", "  badText : String", "  trans : List (String × String)", "  shape : String", "deriving DecidableEq, Repr", "",
         "structure FW where", "  name : String", "  ret : String", "  params : List (String × String)",
         "  calls : List (String × List String)", "  pads : List (List String)", "  rowsMinusHeading : Bool",
         "  rowsGuard : String", "  adjcol : Bool", "  shape : String", "deriving DecidableEq, Repr", "",
         "/-- mechanical reading of one doc block of IPhreeqc.h -/",
         "structure DocFact where", "  name : String", "  retvals : List String", "  negOnError : Bool", "  oneBasedF : Bool",
         "  zeroBasedN : Bool", "  emptyOutOfRange : Bool", "deriving DecidableEq, Repr", ""]

    def pairs(ps):
        return lean_list(f"({lean_str(a)}, {lean_str(b)})" for a, b in ps)

    def calls(cs):
        return lean_list(f"({lean_str(m)}, {lean_list(lean_str(a) for a in args)})" for m, args in cs)

    b = lambda x: "true" if x else "false"
    L.append("def cWrappers : List CW := [")
    L.append(",\n".join(
        f"  ⟨{lean_str(w['name'])}, {lean_str(w['ret'])}, {pairs(w['params'])}, {calls(w['calls'])}, {pairs(w['lookups'])}, "
        f"{lean_str(w['bad'])}, {b(w['bad_is_static'])}, {lean_str(w['bad_text'])}, {pairs(w['trans'])}, {lean_str(w['shape'])}⟩"
        for w in cw))
    L.append("]\n")
    L.append("def fWrappers : List FW := [")
    L.append(",\n".join(
        f"  ⟨{lean_str(w['name'])}, {lean_str(w['ret'])}, {pairs(w['params'])}, {calls(w['calls'])}, "
        f"{lean_list(lean_list(lean_str(a) for a in p) for p in w['pads'])}, "
        f"{b(w['rows_minus_heading'])}, {lean_str(w['rows_guard'])}, {b(w['adjcol'])}, {lean_str(w['shape'])}⟩" for w in fw))
    L.append("]\n")
    L.append("/-- `bind(C, NAME=…)` targets declared in IPhreeqc_interface.F90 with their argument counts -/")
    L.append("def f90Binds : List (String × Nat) := " + lean_list(f"({lean_str(n)}, {k})" for n, k in binds))
    L.append("\n/-- `IPQ_DLL_EXPORT` declarations of IPhreeqc.h: (name, return type, number of parameters) -/")
    L.append("def hDecls : List (String × String × Nat) := " + lean_list(f"({lean_str(n)}, {lean_str(r)}, {k})" for n, r, k in hdecls))
    L.append("\n/-- `IPQ_DLL_EXPORT` declarations of IPhreeqc_interface_F.h -/")
    L.append("def fDecls : List (String × String × Nat) := " + lean_list(f"({lean_str(n)}, {lean_str(r)}, {k})" for n, r, k in fdecls))
    L.append("\ndef docFacts : List DocFact := [")
    L.append(",\n".join(f"  ⟨{lean_str(n)}, {lean_list(lean_str(x) for x in rv)}, {b(neg)}, {b(ob)}, {b(zb)}, {b(eo)}⟩" for n, rv, neg, ob, zb, eo in facts))
    L.append("]")
    L.append("\n/-- semantic facts of IPhreeqcLib::DestroyIPhreeqc / GetInstance / CreateIPhreeqc (\"?\" = shape not recognised):",
             )
    L.append("result of Destroy for an id that is negative or not in the map / for a live id; whether exactly the looked-up object is")
    L.append("deleted; GetInstance searches `IPhreeqc::Instances` by the id and returns the mapped pointer or 0; Create returns the new")
    L.append("object's Index, and what it returns when allocation fails -/")
    L.append("def helperFacts : List (String × String) := " + lean_list(f"({lean_str(k)}, {lean_str(v)})" for k, v in sorted(hf.items())))
    L.append("\nend PhreeqcVerif.Gen.Api")
    out = vlib.LEAN / "PhreeqcVerif" / "Gen" / "ApiTable.lean"
    text = "\n".join(L) + "\n"
    if not out.exists() or out.read_text() != text:
        out.write_text(text)
    return {"c_wrappers": len(cw), "f_wrappers": len(fw), "f90_binds": len(binds), "header_decls": len(hdecls),
            "f_header_decls": len(fdecls), "doc_blocks": len(facts), "helpers_in_file": sorted(helpers),
            "named_constants": {**consts_c, **consts_f}, "facts_not_extracted": unknown,
            "declared_but_not_defined": sorted(({d[0] for d in hdecls} - {w["name"] for w in cw}) | ({d[0] for d in fdecls} - {w["name"] for w in fw}))}


if __name__ == "__main__":
    import json
    print(json.dumps(generate(), indent=1))
