import PhreeqcVerif.Lemmas.Store
import PhreeqcVerif.Gen.Keywords
/-!
C14 — numbered reactants behave as a keyed store under COPY/DELETE/SAVE/USE/MODIFY.

`Model/Store.lean` is the store as coded (association lists for `std::map<int,T>`, the loops of `Rxn_copies`,
`saver`, `copy_entities`, `delete_entities`, …). Here: the abstract spec `Kind → Int → Option Entry` (whose content
projection is the property's `Kind → Int → Option Content`), the map-level meaning `specOp` of every store operation,
and the refinement theorems. Every map mutation of the model goes through `St.exec`, i.e. through `applySOp`.
-/
namespace PhreeqcVerif.Store.C14
open PhreeqcVerif.Store AMap

abbrev AStore := Kind → Int → Option Entry

def upd (f : Int → Option Entry) (n : Int) (v : Option Entry) : Int → Option Entry :=
  fun x => if n = x then v else f x

/-- what each store operation means for the finite map number ↦ entry of its kind -/
def specOp : SOp → (Int → Option Entry) → (Int → Option Entry)
  | .put _ n e, f => upd f n (some { e with nUser := n })
  | .setEnd _ n x, f => match f n with
    | some e => upd f n (some { e with nUserEnd := x, nUser := n }) | none => f
  | .setNewDef _ n b, f => match f n with
    | some e => upd f n (some { e with newDef := b, nUser := n }) | none => f
  | .modify k n x tok, f => match f n with
    | some e => upd f n (some { e with content := tok, nUserEnd := x,
                                       newDef := if k = .solution then e.newDef else false, nUser := n })
    | none => f
  | .copy _ i j, f => match f i with
    | some e => upd f j (some (renum e j)) | none => f
  | .copies _ n hi, f => fanSpec f n hi
  | .copyEach _ n hi, f => fanSpec f n hi
  | .copyTo _ src ts, f => copyToSpec f src ts
  | .erase _ n, f => upd f n none
  | .clear _, _ => fun _ => none

def specStep (a : AStore) (op : SOp) : AStore := fun k => if k = op.kind then specOp op (a k) else a k
def specRun (a : AStore) (ops : List SOp) : AStore := ops.foldl specStep a

theorem step_eq (a : AStore) (op : SOp) (k : Kind) (x : Int) :
    specStep a op k x = if k = op.kind then specOp op (a k) x else a k x := by
  unfold specStep; split <;> rfl

/-- every store operation acts on lookups exactly as its map-level spec -/
theorem onMap_spec (op : SOp) (m : AMap) : find (op.onMap m) = specOp op (find m) := by
  funext x
  cases op <;> simp only [SOp.onMap, specOp, upd]
  case put => exact find_put ..
  case setEnd n hi => cases h : find m n <;> simp [find_put, upd]
  case setNewDef n b => cases h : find m n <;> simp [find_put, upd]
  case modify n hi tok => cases h : find m n <;> simp [find_put, upd]
  case copy i j => rw [find_rxnCopy]; cases h : find m i <;> rfl
  case copies => exact find_rxnCopies ..
  case copyEach => exact find_copyEach ..
  case copyTo => exact find_copyTo ..
  case erase => exact find_erase ..
  case clear => rfl

theorem abs_applySOp (ms : Maps) (op : SOp) : abs (applySOp ms op) = specStep (abs ms) op := by
  funext k
  simp only [abs, applySOp, Maps.set, specStep]
  show find ((KTab.set ms op.kind (op.onMap (ms.get op.kind))).get k) = _
  rw [KTab.get_set]
  split
  · rename_i h; subst h; exact onMap_spec op _
  · rfl

/-- **refines_map**: any sequence of store operations acts on the abstract map as the composition of their specs -/
theorem refines_map (ops : List SOp) (ms : Maps) : abs (applySOps ms ops) = specRun (abs ms) ops := by
  induction ops generalizing ms with
  | nil => rfl
  | cons op t ih =>
    simp only [applySOps, specRun, List.foldl_cons]
    have := ih (applySOp ms op)
    simp only [applySOps, specRun] at this
    rw [this, abs_applySOp]

/-- the property's view (kind, number) ↦ content follows -/
theorem refines_content (ops : List SOp) (ms : Maps) (k : Kind) (n : Int) :
    contentOf (applySOps ms ops) k n = (specRun (abs ms) ops k n).map (·.content) := by
  have := congrFun (congrFun (refines_map ops ms) k) n
  simp only [abs] at this
  simp [contentOf, this]

/-! ### independence across kinds -/

theorem other_kinds_untouched (ms : Maps) (op : SOp) (k : Kind) (h : k ≠ op.kind) :
    (applySOp ms op).get k = ms.get k := by
  simp only [applySOp, Maps.set]
  rw [KTab.get_set, if_neg h]

theorem ktab_ext {α} (t u : KTab α) (h : ∀ k, t.get k = u.get k) : t = u := by
  cases t; cases u
  have h1 := h .solution; have h2 := h .pp; have h3 := h .exchange; have h4 := h .surface; have h5 := h .ss
  have h6 := h .gas; have h7 := h .kinetics; have h8 := h .mix; have h9 := h .reaction; have h10 := h .temperature
  have h11 := h .pressure
  simp only [KTab.get] at *
  simp [*]

/-- operations on different kinds commute -/
theorem ops_commute_across_kinds (ms : Maps) (a b : SOp) (h : a.kind ≠ b.kind) :
    applySOp (applySOp ms a) b = applySOp (applySOp ms b) a := by
  apply ktab_ext
  intro k
  simp only [applySOp, Maps.set, KTab.get_set]
  by_cases hb : k = b.kind
  · subst hb
    have : ¬ b.kind = a.kind := fun e => h e.symm
    simp [this]
  · by_cases ha : k = a.kind
    · subst ha; simp [h]
    · simp [ha, hb]

/-! ### DELETE -/

/-- **delete_exact**: DELETE of numbers `nums` of kind `k` removes exactly those entries -/
theorem delete_exact (k : Kind) (nums : List Int) (ms : Maps) (k' : Kind) (x : Int) :
    abs (applySOps ms (nums.map (SOp.erase k))) k' x = if k' = k ∧ x ∈ nums then none else abs ms k' x := by
  induction nums generalizing ms with
  | nil => simp [applySOps]
  | cons n t ih =>
    simp only [List.map_cons, applySOps, List.foldl_cons]
    have := ih (applySOp ms (.erase k n))
    simp only [applySOps] at this
    rw [this, abs_applySOp]
    by_cases hk : k' = k
    · subst hk
      simp only [step_eq, SOp.kind, ↓reduceIte, specOp, upd]
      by_cases hx : n = x
      · subst hx; simp
      · have : ¬ x = n := fun e => hx e.symm
        simp [hx, this]
    · simp [step_eq, SOp.kind, hk]

/-- DELETE of a kind without numbers removes every entry of that kind and nothing else -/
theorem delete_all_exact (k : Kind) (ms : Maps) (k' : Kind) (x : Int) :
    abs (applySOp ms (.clear k)) k' x = if k' = k then none else abs ms k' x := by
  rw [abs_applySOp]
  by_cases hk : k' = k
  · subst hk; simp only [step_eq, SOp.kind, ↓reduceIte, specOp]
  · simp only [step_eq, SOp.kind, hk, ↓reduceIte]

/-! ### COPY -/

/-- **copy_content_eq** (signed loop variable): after `COPY k src a-b` every number of a…b except `src` holds an
entry equal to the source's except for its number; the source and everything else is unchanged -/
theorem copy_content_eq (ms : Maps) (k : Kind) (src a b : Int) (e : Entry) (h : abs ms k src = some e) :
    ∃ ts, copyTargets false a b = some ts ∧ ∀ k' x, abs (applySOp ms (.copyTo k src ts)) k' x =
      if k' = k ∧ a ≤ x ∧ x ≤ b ∧ x ≠ src then some (renum e x) else abs ms k' x := by
  obtain ⟨ts, hts, _⟩ := mem_copyTargets_int a b 0
  refine ⟨ts, hts, ?_⟩
  intro k' x
  obtain ⟨ts', hts', hmem⟩ := mem_copyTargets_int a b x
  rw [hts] at hts'; cases hts'
  rw [abs_applySOp]
  by_cases hk : k' = k
  · subst hk
    simp only [step_eq, SOp.kind, ↓reduceIte, specOp, copyToSpec, h, hmem, true_and]
    by_cases hc : (a ≤ x ∧ x ≤ b) ∧ x ≠ src
    · rw [if_pos hc, if_pos ⟨hc.1.1, hc.1.2, hc.2⟩]
    · rw [if_neg hc, if_neg (fun hh => hc ⟨⟨hh.1, hh.2.1⟩, hh.2.2⟩)]
  · simp [step_eq, SOp.kind, hk]

/-- the copies carry the source's content, and a later write to a copy does not reach the source (no aliasing) -/
theorem copy_then_write_independent (ms : Maps) (k : Kind) (src j : Int) (e e' : Entry) (h : abs ms k src = some e)
    (hj : j ≠ src) :
    abs (applySOps ms [.copy k src j, .put k j e']) k src = some e ∧
    (abs (applySOp ms (.copy k src j)) k j).map (·.content) = some e.content := by
  constructor
  · rw [refines_map]
    simp only [specRun, List.foldl, step_eq, SOp.kind, ↓reduceIte, specOp, upd, h, hj]
  · rw [abs_applySOp]
    simp only [step_eq, SOp.kind, ↓reduceIte, specOp, h, upd, Option.map, renum]

/-- unsigned (`size_t`) loop variable: the same result **provided** the range lies in 0 … 2^31-1 -/
theorem copy_content_eq_partial (a b x : Int) (ha : 0 ≤ a) (ha' : a < 2147483648) (hb0 : 0 ≤ b) (hb : b < 2147483648) :
    ∃ ts, copyTargets true a b = some ts ∧ (x ∈ ts ↔ a ≤ x ∧ x ≤ b) := by
  unfold copyTargets
  simp only [if_true]
  by_cases hlt : b < a
  · have h1 : toU64 b < toU64 a := by unfold toU64 two64; omega
    refine ⟨[], by simp [h1], ?_⟩
    simp; omega
  · have hau : toU64 a = a.toNat := by unfold toU64 two64; omega
    have hb' : toU64 b = b.toNat := by unfold toU64 two64; omega
    have h1 : ¬ toU64 b < toU64 a := by omega
    have h2 : ¬ toU64 b = two64 - 1 := by unfold two64; omega
    have h3 : ¬ two32 ≤ toU64 b - toU64 a := by unfold two32; omega
    refine ⟨_, by rw [if_neg h1, if_neg h2, if_neg h3], ?_⟩
    simp only [List.mem_map, List.mem_range]
    constructor
    · rintro ⟨t, ht, rfl⟩
      have : toI32 (toU64 a + t) = a + t := by unfold toI32 two32; simp only; split <;> omega
      omega
    · intro hx
      refine ⟨(x - a).toNat, by omega, ?_⟩
      unfold toI32 two32; simp only; split <;> omega

/-- … and the full statement is false of the `size_t` loop: `COPY k src -2-3` visits no number at all, and
`COPY k src -3--1` never ends -/
theorem copy_unsigned_negative_start_copies_nothing : copyTargets true (-2) 3 = some [] := by decide
theorem copy_unsigned_to_minus_one_runs_away : copyTargets true (-3) (-1) = none := by decide
theorem copy_signed_negative_start : copyTargets false (-2) 3 = some [-2, -1, 0, 1, 2, 3] := by decide

/-! ### ranges: definitions and SAVE -/

/-- **range_define** / **save_overwrites**: storing an entry under `n` and fanning it out over `n … hi` (by the
chained `Rxn_copies` or by the `Rxn_copy` loop) leaves every number of the range with that content, numbered by
itself — whatever these numbers held before — and changes no other number and no other kind -/
theorem range_define (chain : Bool) (ms : Maps) (k : Kind) (n hi : Int) (e : Entry) (k' : Kind) (x : Int) :
    abs (applySOps ms [.put k n e, if chain then .copies k n hi else .copyEach k n hi]) k' x =
      if k' = k ∧ n ≤ x ∧ (x ≤ hi ∨ x = n) then
        (if x = n then some { e with nUser := n } else some (renum e x))
      else abs ms k' x := by
  rw [refines_map]
  cases chain <;> simp only [Bool.false_eq_true, if_false, if_true, specRun, List.foldl]
  all_goals
    by_cases hk : k' = k
    · subst hk
      simp only [step_eq, SOp.kind, ↓reduceIte, fanSpec, specOp, upd, true_and]
      by_cases hxn : x = n
      · subst hxn
        rw [if_neg (by omega), if_pos rfl, if_pos (by omega), if_pos rfl]
      · have hnx : ¬ n = x := fun h => hxn h.symm
        by_cases hr : n < x ∧ x ≤ hi
        · rw [if_pos hr, if_pos (by omega), if_neg hxn]; rfl
        · rw [if_neg hr, if_neg hnx, if_neg (by omega)]
    · simp [step_eq, SOp.kind, hk]

theorem save_overwrites (chain : Bool) (ms : Maps) (k : Kind) (n hi : Int) (tok : Nat) (x : Int)
    (hx : n ≤ x ∧ x ≤ hi) :
    contentOf (applySOps ms [.put k n (calcEntry tok n), if chain then .copies k n hi else .copyEach k n hi]) k x
      = some tok := by
  have := range_define chain ms k n hi (calcEntry tok n) k x
  simp only [abs] at this
  simp only [contentOf, this]
  simp only [true_and]
  rw [if_pos ⟨hx.1, Or.inl hx.2⟩]
  split <;> rfl

/-! ### *_MODIFY and USE -/

/-- **modify_local**: `*_MODIFY k n` touches only entry (k, n), and of it only content, range end and the new_def flag -/
theorem modify_local (ms : Maps) (k : Kind) (n hi : Int) (tok : Nat) (k' : Kind) (x : Int) :
    abs (applySOp ms (.modify k n hi tok)) k' x =
      if k' = k ∧ x = n then
        (abs ms k n).map fun e => { e with content := tok, nUserEnd := hi,
                                           newDef := if k = .solution then e.newDef else false, nUser := n }
      else abs ms k' x := by
  rw [abs_applySOp]
  by_cases hk : k' = k
  · subst hk
    simp only [step_eq, SOp.kind, ↓reduceIte, specOp, true_and]
    cases h : abs ms k' n with
    | none =>
      simp only [Option.map]
      split
      · rename_i hx; subst hx; exact h
      · rfl
    | some e =>
      simp only [Option.map, upd]
      by_cases hx : x = n
      · subst hx; simp
      · have : ¬ n = x := fun e => hx e.symm
        simp [hx, this]
  · simp [step_eq, SOp.kind, hk]

/-- **use_reads_only**: `copy_use(-2)` (what USE / RUN_CELLS do before a calculation) writes scratch number −2 only -/
theorem use_reads_only (ms : Maps) (k : Kind) (i : Int) (k' : Kind) (x : Int) (hx : x ≠ -2) :
    abs (applySOp ms (.copy k i (-2))) k' x = abs ms k' x := by
  rw [abs_applySOp]
  by_cases hk : k' = k
  · subst hk
    simp only [step_eq, SOp.kind, ↓reduceIte, specOp]
    cases h : abs ms k' i with
    | none => rfl
    | some e =>
      simp only [upd]
      rw [if_neg (fun e => hx e.symm)]
  · simp only [step_eq, SOp.kind, hk, ↓reduceIte]

/-! ### representation: the concrete store carries nothing beyond the abstract map -/

def GoodStore (ms : Maps) : Prop := ∀ k, Good (ms.get k)

theorem good_init : GoodStore (St.init true).maps := by
  intro k; simp only [St.init, KTab.get_const]; exact good_nil

theorem good_applySOps (ops : List SOp) (ms : Maps) (h : GoodStore ms) : GoodStore (applySOps ms ops) := by
  induction ops generalizing ms with
  | nil => exact h
  | cons op t ih =>
    simp only [applySOps, List.foldl_cons]
    apply ih
    intro k
    simp only [applySOp, Maps.set]
    rw [KTab.get_set]
    split
    · exact good_onMap op (h _)
    · exact h k

/-- two well-formed stores with the same abstract view are the same store -/
theorem abs_injective (ms₁ ms₂ : Maps) (h₁ : GoodStore ms₁) (h₂ : GoodStore ms₂) (h : abs ms₁ = abs ms₂) :
    ms₁ = ms₂ := by
  apply ktab_ext
  intro k
  exact good_ext (h₁ k).1 (h₂ k).1 (fun x => congrFun (congrFun h k) x)

/-- DUMP prints the key: in a well-formed store every entry's n_user is the number it is filed under, and a
(kind, number) occurs at most once and in ascending order -/
theorem dump_number_is_key (ms : Maps) (h : GoodStore ms) (k : Kind) (p : Int × Entry) (hp : p ∈ ms.get k) :
    p.2.nUser = p.1 := (h k).2 p hp

/-! ### component list -/

/-- **components_superset**: every element of every entry of a visited kind is in the component list -/
theorem components_superset (elemsOf : Nat → List String) (ms : Maps) (k : Kind) (hk : k ∈ componentKinds)
    (n : Int) (e : Entry) (h : abs ms k n = some e) (el : String) (hel : el ∈ elemsOf e.content) :
    el ∈ components elemsOf ms := by
  simp only [components, List.mem_flatMap]
  exact ⟨k, hk, (n, e), find_mem h, hel⟩

/-- … in particular after any history of store operations -/
theorem components_superset_after (elemsOf : Nat → List String) (ms : Maps) (ops : List SOp) (k : Kind)
    (hk : k ∈ componentKinds) (n : Int) (e : Entry) (h : specRun (abs ms) ops k n = some e) (el : String)
    (hel : el ∈ elemsOf e.content) : el ∈ components elemsOf (applySOps ms ops) := by
  apply components_superset elemsOf _ k hk n e _ el hel
  rw [refines_map]; exact h

/-! ### the schedule of one simulation and the option tables, against the current source

`Gen/StoreTables.lean` is rewritten by tools/gen_store.py from /repo on every run of the check; these obligations are
re-decided each time, so a reordered call in `do_run`, a changed kind order in a driver loop, a reordered option vector
or a re-wired `case` no longer checks. -/

section SourceTables

/-- the model runs the phases of a simulation in the order of the calls in `IPhreeqc::do_run` … -/
theorem schedule_is_do_run : schedule.map Phase.call = Gen.StoreTables.doRun := by decide
/-- … which is also the order in `Phreeqc::run_simulations` -/
theorem schedule_is_run_simulations : schedule.map Phase.call = Gen.StoreTables.runSimulations := by decide
/-- the observation point (`simToDump`) and the remainder make up exactly the schedule; DELETE comes after DUMP -/
theorem schedule_split : schedule.takeWhile (· != .dump) ++ schedule.dropWhile (· != .dump) = schedule ∧
    schedule.dropWhile (· != .dump) = [.dump, .deleteEntities] := by decide

theorem set_use_order_is_source : setUseOrder.map Kind.name = Gen.StoreTables.setUse := by decide
theorem copy_use_order_is_source : copyUseOrder.map Kind.name = Gen.StoreTables.copyUse := by decide
theorem saver_is_source : saverKinds.map (fun p => (p.1.name, p.2)) = Gen.StoreTables.saverFan := by decide
theorem do_mixes_order_is_source : mixOrder.map Kind.name = Gen.StoreTables.doMixes := by decide
theorem copy_order_is_source : copyOrder.map Kind.name = Gen.StoreTables.copyEntities := by decide
theorem delete_and_dump_order_is_source :
    Kind.all.map Kind.name = Gen.StoreTables.deleteEntities ∧ Kind.all.map Kind.name = Gen.StoreTables.dumpOstream := by decide
theorem component_kinds_is_source : componentKinds.map Kind.name = Gen.StoreTables.listComponents := by decide

/-- the loop variable of `copy_entities` is signed in the current source, so `copy_content_eq` is about the code as it is -/
theorem copy_loop_is_signed : Gen.StoreTables.copyLoopUnsigned = false := by decide

/-- every option name the generator writes in a DELETE block selects the item of the intended kind -/
theorem delete_names_resolve :
    Gen.StoreTables.delNames.all (fun p => match kindOfName p.1 with
      | some k => decide (resolveDelLine p.2 [] = some (.item k []))
      | none => false) = true := by decide
theorem delete_all_cell_resolve :
    resolveDelLine "all" [] = some .all ∧ resolveDelLine "cell" [] = some (.cell []) ∧
    resolveDelLine "cells" [] = some (.cell []) := by decide
/-- an abbreviation goes to the FIRST option it is a prefix of: `-s` is solution (not surface), `-p` pp_assemblage,
    `-r` reaction (not reaction_temperature), `-c` cell, `-a` all -/
theorem delete_abbreviations :
    resolveDelLine "s" [] = some (.item .solution []) ∧ resolveDelLine "su" [] = some (.item .surface []) ∧
    resolveDelLine "p" [] = some (.item .pp []) ∧ resolveDelLine "pr" [] = some (.item .pressure []) ∧
    resolveDelLine "r" [] = some (.item .reaction []) ∧ resolveDelLine "reaction_" [] = some (.item .temperature []) ∧
    resolveDelLine "c" [] = some (.cell []) ∧ resolveDelLine "a" [] = some .all ∧
    resolveDelLine "so" [] = some (.item .solution []) ∧ resolveDelLine "sol" [] = some (.item .solution []) ∧
    resolveDelLine "soli" [] = some (.item .ss []) ∧ resolveDelLine "x" [] = none := by decide
/-- every option of the vector is wired to an item -/
theorem delete_options_all_wired :
    Gen.StoreTables.binVopts.all (fun v => (resolveDelLine v []).isSome) = true ∧ Gen.StoreTables.binVopts.length = Gen.StoreTables.binCases.length := by decide
/-- `-cells` of RUN_CELLS, also abbreviated, is the cell list -/
theorem run_cells_option_resolves :
    ["cells", "cell", "cel", "ce", "c"].all resolveCells = true ∧ resolveCells "s" = false := by decide
/-- the observing `DUMP -all` selects "all" -/
theorem dump_all_resolves : resolveOpt Gen.StoreTables.dumperVopts "all" = some Gen.StoreTables.dumperAllCase := by decide

/-- DUMP: every option of `dumper::vopts` is wired, and each kind's option name selects that kind's item
    (the same spelling as in DELETE) -/
theorem dump_options_wired :
    Gen.StoreTables.dumperVopts.length = Gen.StoreTables.dumperCases.length ∧
    Gen.StoreTables.delNames.all (fun p =>
      ((resolveOpt Gen.StoreTables.dumperVopts p.2).bind fun i => Gen.StoreTables.dumperCases[i]?) == some p.1) = true ∧
    ((resolveOpt Gen.StoreTables.dumperVopts "cells").bind fun i => Gen.StoreTables.dumperCases[i]?) = some "cell" := by
  decide

/-- the `Keywords::KEY_…` enumerator a keyword text is looked up to (`Keywords::Keyword_search`, generated table) -/
def keyOf (name : String) : Option String :=
  (Gen.Keywords.table.lookup name).bind fun i => Gen.Keywords.enumNames[i]?

/-- the names written after USE and COPY select, through the keyword table and the `switch` of `read_use` /
    `read_copy`, the intended kind; the definition keywords are the same enumerators -/
theorem use_copy_names_resolve :
    Gen.StoreTables.useNames.all (fun p =>
      ((keyOf p.2).bind fun k => Gen.StoreTables.useKeys.lookup k) == some p.1 &&
      ((keyOf p.2).bind fun k => Gen.StoreTables.copyKeys.lookup k) == some p.1) = true ∧
    Gen.StoreTables.kwNames.all (fun p =>
      ((keyOf p.2).bind fun k => Gen.StoreTables.useKeys.lookup k) == some p.1) = true := by decide
/-- SAVE accepts exactly the six saveable kinds, each under its own name -/
theorem save_names_resolve :
    Gen.StoreTables.useNames.all (fun p =>
      match (keyOf p.2).bind fun k => Gen.StoreTables.saveKeys.lookup k with
      | some k => k == p.1
      | none => !(saverKinds.map (·.1.name)).contains p.1) = true := by decide

/-- with the loop variable as it is in the source, COPY to any range a…b (negative numbers included) fills it -/
theorem copy_content_eq_current (ms : Maps) (k : Kind) (src a b : Int) (e : Entry) (h : abs ms k src = some e) :
    ∃ ts, copyTargets Gen.StoreTables.copyLoopUnsigned a b = some ts ∧ ∀ k' x,
      abs (applySOp ms (.copyTo k src ts)) k' x =
        if k' = k ∧ a ≤ x ∧ x ≤ b ∧ x ≠ src then some (renum e x) else abs ms k' x := by
  rw [copy_loop_is_signed]; exact copy_content_eq ms k src a b e h

end SourceTables

/-! ### non-vacuity: concrete histories -/

def e0 (tok : Nat) (n hi : Int) : Entry := ⟨tok, n, hi, true, none, []⟩
def empty : Maps := KTab.const []

/-- SOLUTION 1-3 (content 7), COPY solution 2 5-6, DELETE solution 2, SOLUTION_MODIFY 5 (content 9) -/
def hist1 : List SOp :=
  [.put .solution 1 (e0 7 1 3), .copies .solution 1 3, .copyTo .solution 2 [5, 6], .erase .solution 2,
   .modify .solution 5 5 9, .put .pp 1 (e0 8 1 1)]

example : (visible (applySOps empty hist1)) =
    [(.solution, 1, 7), (.solution, 3, 7), (.solution, 5, 9), (.solution, 6, 7), (.pp, 1, 8)] := by decide
example : contentOf (applySOps empty hist1) .solution 2 = none := by decide
example : specRun (abs empty) hist1 .solution 6 = some (renum (e0 7 1 3) 6) := by decide
/-- overwriting: a range saved over existing entries replaces all of them (the seeded `insert` variant would not) -/
example : visible (applySOps empty [.put .pp 2 (e0 1 2 2), .put .pp 3 (e0 2 3 3), .put .pp 1 (calcEntry 5 1),
    .copies .pp 1 3]) = [(.pp, 1, 5), (.pp, 2, 5), (.pp, 3, 5)] := by decide
example : components (fun t => if t = 7 then ["Na", "Cl"] else ["Ca"]) (applySOps empty hist1) =
    ["Na", "Cl", "Na", "Cl", "Ca", "Na", "Cl", "Ca"] := by decide
example : GoodStore (applySOps empty hist1) := good_applySOps _ _ (by intro k; simp only [empty, KTab.get_const]; exact good_nil)

end PhreeqcVerif.Store.C14
