/-! `pmodel transport`: line-protocol driver (stub — replaced by the owner of this model). -/
namespace Driver.Transport

def run : IO Unit := IO.eprintln "pmodel transport: not implemented"

end Driver.Transport
