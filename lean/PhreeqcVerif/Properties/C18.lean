import PhreeqcVerif.Model.Inverse
import PhreeqcVerif.Lemmas.Inverse
/-!
# C18 — every reported inverse model is a genuine, admissible mole-balance model

Theorems about `Model/Inverse.lean` (the model of `setup_inverse`, `solve_inverse`, `minimal_solve`, `range`):

* `checkModel_sound`            – the executable check used on every reported model of the real code implies the
                                  declarative `Admissible` (for every problem, model and tolerance);
* `matrix_encodes_admissible`   – any vector satisfying the equalities, inequalities and sign constraints that
                                  `setupMatrix`/`signOf` encode (what cl1 returns with kode = 0) decodes to a model with exact
                                  mole balance for every element row, adjustments within the bounds, non-negative mixing
                                  fractions, final fraction 1 and the dissolve / precipitate constraints;
* `adjustment_within_declared`  – the bounds of the matrix are the declared uncertainties (plus `toler` in the negative
                                  direction when the bound exceeds the concentration);
* `element_entry_reaches_all_rows` – tidy_inverse: a -balances entry naming a redox element reaches every valence-state
                                  row of that element; `unnamed_row_keeps_default`;
* `minimal_antichain(_fold)`    – under `-minimal`, for any enumeration order and any LP oracle that is exact
                                  (`OracleOK`), no reported model's set contains another one's;
* `range_contains_value`        – the optimum of the range LP (minimise |x_v ∓ range_max| over the feasible set of the model)
                                  brackets the reported value whenever |value| ≤ range_max.
-/
namespace PhreeqcVerif.Inverse
open Problem

/-! ## checkModel -/

theorem checkModel_sound (p : Problem) (t : Rat) (m : Model) (h : p.checkModel t m = true) : p.Admissible t m := by
  unfold Problem.checkModel at h
  rw [Bool.and_eq_true] at h
  refine ⟨checkBalanced_sound p t m h.1, fun hr => ?_⟩
  have h2 := h.2
  rw [hr] at h2
  exact checkRange_sound p t m (by simpa using h2)

/-- the check is also complete: it accepts every admissible model (so a rejection is a real counterexample) -/
theorem checkModel_complete (p : Problem) (t : Rat) (m : Model) (h : p.Admissible t m) : p.checkModel t m = true := by
  unfold Problem.checkModel
  rw [Bool.and_eq_true]
  refine ⟨checkBalanced_complete p t m h.1, ?_⟩
  cases hr : p.range
  · rfl
  · simpa using checkRange_complete p t m (h.2 hr)

/-! ## the matrix -/

theorem matrix_encodes_admissible (p : Problem) (x mn mx : Var → Rat) (h : p.Satisfies x) :
    p.Balanced 0 (decode x mn mx) :=
  satisfies_balanced p x mn mx h

/-- with the reported ranges bracketing the values the decoded model is admissible in the sense of the property -/
theorem matrix_encodes_admissible_range (p : Problem) (x mn mx : Var → Rat) (h : p.Satisfies x)
    (hr : p.range = true → p.InRange 0 (decode x mn mx)) : p.Admissible 0 (decode x mn mx) :=
  ⟨satisfies_balanced p x mn mx h, hr⟩

/-- the bound used for an active adjustment is the declared uncertainty: `u·|T|` for a relative, `-u` for an
    absolute uncertainty; the bound in the negative direction exceeds it by at most `toler` -/
theorem adjustment_within_declared (p : Problem) (q e : Nat) (htol : 0 ≤ p.tol) (ha : p.active q e = true) :
    p.bound q e = p.rawBound q e ∧
    p.rawBound q e = (if p.unc q e ≤ 0 then -(p.unc q e) else absR (p.T q e * p.unc q e)) ∧
    p.lowBound q e ≤ p.bound q e + p.tol :=
  ⟨bound_eq_raw p q e ha, rfl, lowBound_le p q e htol ha⟩

/-- mole balance in the textbook form: with adjustments `δ_qe = ε_qe / α_q` for the solutions that take part
    (α_q ≠ 0) the residual is `Σ_q ±α_q (T_qe + δ_qe) + Σ ν x + Σ ρ r` -/
theorem mbRes_delta_form (p : Problem) (m : Model) (e : Nat) (δ : Nat → Rat)
    (hδ : ∀ q, q < p.ns → p.epsCoef q e (p.sgn q) * m.eps e q = p.sgn q * (m.alpha q * δ q)) :
    p.mbRes m e =
      sumR ((rng p.ns).map fun q => p.sgn q * (m.alpha q * (p.T q e + δ q))) +
      sumR ((rng p.np).map fun i => p.nu i e * m.x i) + sumR ((rng p.nr).map fun k => p.rho k e * m.r k) :=
  mbRes_delta p m e δ hδ

/-! ## the search -/

theorem minimal_antichain_fold (o : Oracle) (c : SearchCfg) (h : OracleOK o c.nbits) (hmin : c.minimal = true)
    (hn : 0 < c.nbits) (masks : List Nat) (st0 : SState)
    (h0 : st0.good = [] ∧ st0.bad = [] ∧ st0.minimal = [] ∧ st0.reported = []) :
    Antichain (masks.foldl (step o c) st0).reported :=
  antichain_fold_lemma o c h hmin hn masks st0 h0

theorem minimal_antichain (o : Oracle) (c : SearchCfg) (h : OracleOK o c.nbits) (hmin : c.minimal = true)
    (hn : 0 < c.nbits) : Antichain (search o c).reported :=
  antichain_search_lemma o c h hmin hn

/-- an antichain in the sense of the property: no reported set strictly contains another one -/
theorem antichain_no_strict_superset (l : List Nat) (h : Antichain l) (i j : Nat) (hi : i < l.length) (hj : j < l.length)
    (hij : i ≠ j) : ¬ (subsetOf l[i] l[j] = true ∧ l[i] ≠ l[j]) :=
  antichain_get l h i j hi hj hij

/-! ## ranges -/

/-- `range()`: the minimum is the solution of "minimise |x_v + R|", the maximum of "minimise |x_v - R|" over a
    feasible set `F` that contains the reported model `x`; if |x_v| ≤ R the two optima bracket the reported value -/
theorem range_contains_value (F : (Var → Rat) → Prop) (x ymin ymax : Var → Rat) (v : Var) (R : Rat)
    (hx : F x) (hlo : -R ≤ x v) (hhi : x v ≤ R)
    (hmin : ∀ z, F z → absR (ymin v + R) ≤ absR (z v + R))
    (hmax : ∀ z, F z → absR (ymax v - R) ≤ absR (z v - R)) :
    ymin v ≤ x v ∧ x v ≤ ymax v :=
  range_bracket F x ymin ymax v R hx hlo hhi hmin hmax

/-- the objective row written by `range()` (coefficient 1 in column `v`, right-hand side ∓range_max) has the L1
    residual |x_v ∓ R| -/
theorem range_objective (x : Var → Rat) (v : Var) (R : Rat) :
    absR ((Row.eval x { kind := .opt, coeffs := [(v, 1)], rhs := R }) - R) = absR (x v - R) := by
  simp only [Row.eval, List.map_cons, List.map_nil, sumR]
  congr 1; grind

/-! ## declared uncertainties (tidy_inverse) -/

/-- tidy_inverse: a `-balances` entry that names a redox ELEMENT reaches EVERY valence-state row of that element
    (unless a later element-wide entry for the same element or an entry for that very row replaces it) -/
theorem element_entry_reaches_all_rows (rows : List RowId) (dflt : List Rat) (pre post : List BalEntry) (p : Nat)
    (unc : List Rat) (i : Nat) (hi : i < rows.length) (hp : (rows.getD i default).primary = p)
    (hpost : ∀ en ∈ post, en.target ≠ .element p)
    (hrow : ∀ en ∈ pre ++ ⟨.element p, unc⟩ :: post, ∀ m, en.target = .row m → i ≠ rows.findIdx (fun r => r.master = m)) :
    propagateUnc rows dflt (pre ++ ⟨.element p, unc⟩ :: post) i = unc := by
  unfold propagateUnc
  rw [foldl_stepRow_other rows _ _ i hrow]
  rw [List.foldl_append, List.foldl_cons, foldl_stepElem_other rows post _ i p hp hpost]
  simp only [stepElem]
  rw [if_pos ⟨hp, hi⟩]

/-- rows that no entry names keep the global -uncertainty list -/
theorem unnamed_row_keeps_default (rows : List RowId) (dflt : List Rat) (es : List BalEntry) (i : Nat)
    (hel : ∀ en ∈ es, en.target ≠ .element (rows.getD i default).primary)
    (hrow : ∀ en ∈ es, ∀ m, en.target = .row m → i ≠ rows.findIdx (fun r => r.master = m)) :
    propagateUnc rows dflt es i = dflt := by
  unfold propagateUnc
  rw [foldl_stepRow_other rows _ _ i hrow, foldl_stepElem_other rows es _ i _ rfl hel]

/-- non-vacuity: Fe(2), Fe(3) (rows 0, 1 of element 7) and Ca (row 2); "Fe 0.02" reaches both valence states -/
example : (List.range 3).map (propagateUnc [⟨10, 7⟩, ⟨11, 7⟩, ⟨12, 12⟩] [1/20, 1/20] [⟨.element 7, [1/50, 1/50]⟩, ⟨.row 11, [1/10, 1/10]⟩]) =
    [[1/50, 1/50], [1/10, 1/10], [1/20, 1/20]] := by decide +kernel
example : padUnc 3 [1/20, 1/100] [1/2, 1/2, 1/2] = [1/20, 1/100, 1/100] ∧ padUnc 3 [] [1/2, 1/2, 1/2] = [1/2, 1/2, 1/2] := by
  decide +kernel
/-! ## non-vacuity -/

/-- one element (Ca, 5 % uncertainty), two solutions (1 mmol → 3 mmol), one dissolve-only phase with one Ca -/
def exProblem : Problem :=
  { solns := [{ totals := [1/1000], water := 55, phUnc := 1/20, dalkDph := 0, dalkDc := 0 },
              { totals := [3/1000], water := 55, phUnc := 1/20, dalkDph := 0, dalkDc := 0 }],
    elts := [{ isE := false, isAlkM := false, alkName := false, zalk := 2, unc := [1/20, 1/20] }],
    phases := [{ stoich := [1], water := 0, constr := 1, force := false }],
    redox := [], tol := 1/10000000000, mineralWater := true, waterUnc := 0, carbon := false, iAlk := 0, iCarb := none,
    range := true }

def exModel : Model :=
  { alpha := fun _ => 1, x := fun _ => 2/1000, r := fun _ => 0, eps := fun _ _ => 0, ph := fun _ => 0, water := 0,
    minA := fun _ => 1, maxA := fun _ => 1, minX := fun _ => 18/10000, maxX := fun _ => 22/10000 }

/-- the exact model (2 mmol dissolve) is accepted, hence admissible; a model with the wrong sign or a wrong
    amount is rejected -/
example : exProblem.checkModel 0 exModel = true := by decide +kernel
example : exProblem.Admissible 0 exModel := checkModel_sound _ _ _ (by decide +kernel)
example : exProblem.checkModel 0 { exModel with x := fun _ => -2/1000 } = false := by decide +kernel
example : exProblem.checkModel 0 { exModel with x := fun _ => 25/10000 } = false := by decide +kernel
/-- 2.1 mmol is admissible only with an adjustment of the final solution inside its 5 % -/
example : exProblem.checkModel 0 { exModel with x := fun _ => 21/10000, eps := fun _ q => if q = 1 then 1/10000 else 0 } = true := by
  decide +kernel
/-- the matrix of the example has the rows of setup_inverse: 5 optimisation, 1 mole balance, water, final fraction,
    2 charge, 2 dAlk, 4 epsilon inequalities -/
example : exProblem.setupMatrix.length = 16 := by decide +kernel
example : (exProblem.mbRow 0).coeffs =
    [(Var.soln 0, 1/1000), (Var.soln 1, -3/1000), (Var.phase 0, 1), (Var.eps 0 0, 1), (Var.eps 0 1, -1)] := by decide +kernel

/-- search: a concrete exact oracle (2 phases, 2 solutions) for which the hypotheses hold and two incomparable
    minimal models are reported -/
example : Antichain (search exOracle exCfg).reported := minimal_antichain _ _ exOracle_ok rfl (by decide)
example : (search exOracle exCfg).reported = [9, 10] := by decide

end PhreeqcVerif.Inverse
