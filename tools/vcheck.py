#!/usr/bin/env python3
"""Entry point of every check: vcheck.py --prop Cxx --tier quick|thorough [--replay file] | --setup"""
import argparse
import importlib
import json
import os
import sys
import traceback
from pathlib import Path

sys.path.insert(0, str(Path(__file__).resolve().parent))
import vlib  # noqa: E402


def write_root():
    """PhreeqcVerif.lean imports every module of the library (so `lake build` checks all of them)"""
    mods = []
    for sub in ("Model", "Gen", "Lemmas", "Properties"):
        for f in sorted((vlib.LEAN / "PhreeqcVerif" / sub).glob("*.lean")):
            mods.append(f"import PhreeqcVerif.{sub}.{f.stem}")
    text = "\n".join(mods) + "\n"
    root = vlib.LEAN / "PhreeqcVerif.lean"
    if not root.exists() or root.read_text() != text:
        root.write_text(text)


def setup():
    """warm every cache from the files on disk: library, translators, Lean project, harnesses.

    Every check re-runs its own translators and re-proves its own modules, so a failure here is reported but only a
    failing library build is fatal."""
    ctx = vlib.Ctx("C00", "quick", 0)
    ctx.log("building library from", vlib.REPO)
    ctx.build_lib()
    rc = 0
    for f in sorted((vlib.ROOT / "tools").glob("gen_*.py")):
        try:
            mod = importlib.import_module(f.stem)
            if hasattr(mod, "generate"):
                ctx.log("translator", f.name)
                mod.generate(ctx)
        except Exception as e:                      # surfaces again, as a broken obligation, in the check that needs it
            ctx.log("translator", f.name, "FAILED:", str(e)[:300])
    write_root()
    ok, out = ctx.lake_build([])
    if not ok:
        print(out[-3000:])
        ctx.log("lake build of the whole project failed; building module by module")
        for sub in ("Properties",):
            for f in sorted((vlib.LEAN / "PhreeqcVerif" / sub).glob("*.lean")):
                ok1, _ = ctx.lake_build([f"PhreeqcVerif.{sub}.{f.stem}"])
                ctx.log(f"  PhreeqcVerif.{sub}.{f.stem}:", "ok" if ok1 else "FAILED")
        ok2, _ = ctx.lake_build(["pmodel"])
        ctx.log("  pmodel:", "ok" if ok2 else "FAILED")
    for f in sorted(vlib.HARNESS.glob("ph_*.cpp")):
        ctx.log("harness", f.name)
        try:
            ctx.build_harness(f.stem)
        except Exception as e:
            ctx.log("harness", f.name, "FAILED:", str(e)[:300])
    ctx.log("setup done")
    return rc


def main():
    ap = argparse.ArgumentParser()
    ap.add_argument("--prop")
    ap.add_argument("--tier", default=os.environ.get("VERIF_TIER", "quick"))
    ap.add_argument("--replay")
    ap.add_argument("--setup", action="store_true")
    a = ap.parse_args()
    if a.setup:
        return setup()
    seed = int(os.environ.get("VERIF_SEED", "1"))
    prop = a.prop.upper()
    ctx = vlib.Ctx(prop, a.tier, seed, replay=a.replay)
    mod = importlib.import_module("props." + prop.lower())
    try:
        if a.replay:
            data = json.loads(Path(a.replay).read_text())
            mod.replay(ctx, data)
        else:
            mod.run(ctx)
    except Exception as e:
        # A translator that cannot read the current source, or a harness that no longer compiles against it, means the
        # tie between the model and the code is not established for this tree: protocol P (DESIGN §3) — the property
        # is no longer shown to hold. The individual checks do their own search when a translator breaks; reaching
        # this handler means none was possible, so the violation is reported without a failing input and the replay
        # file names what no longer checks.
        tb = traceback.format_exc()
        traceback.print_exc()
        ctx.cov["machinery_error"] = tb[-2000:]
        ctx.violation("the tie to the current source could not be established (translator / harness / model build "
                      f"failed): {type(e).__name__}: {str(e)[:400]}",
                      {"kind": "tie-not-established", "exception": tb[-4000:], "tier": a.tier, "seed": seed}, False)
        return ctx.finish()
    return ctx.finish()


if __name__ == "__main__":
    sys.exit(main())
