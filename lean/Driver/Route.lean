import PhreeqcVerif.Model.Util
import PhreeqcVerif.Model.Route
import Driver.SelOut
/-! `pmodel route`: switch configuration + the recorded event stream of one call → predicted views. -/
namespace Driver.Route
open PhreeqcVerif PhreeqcVerif.SelOut PhreeqcVerif.Route PhreeqcVerif.Util

structure St where
  outCfg : MsgCfg := ⟨false, false⟩
  logCfg : MsgCfg := ⟨false, false⟩
  errCfg : ErrCfg := ⟨true, true, false⟩
  strSw : List (Int × Bool) := []
  fileSw : List (Int × Bool) := []
  cur : Int := 1
  perUser : Bool := false      -- false: the code's rule (current number's switch), true: per-user-number rule
  outs : Array Msg := #[]
  logs : Array Msg := #[]
  errs : Array ErrEv := #[]
  pevs : Array PEv := #[]
  users : List Int := []
  bad : Nat := 0
  -- history mode (`endcall`): what survives a call
  inst : Inst := {}
  extraUsers : List Int := []
  -- schedule model (`sk …` lines)
  so : SoSt := {}
  skHoisted : Bool := false
  skFileSw : List (Int × Bool) := []
  skAcc : List Sk := []
  -- dump model (`dm …` lines)
  dm : DumpSt := {}
  -- source shape: are the out/log line vectors re-split when a call stops before do_run / after a failed load
  refreshed : Bool := false
  dmFile : Bool := false
  dmStr : Bool := false

def look (m : List (Int × Bool)) (n : Int) : Bool := (m.lookup n).getD false

def parseMap (ws : List String) : List (Int × Bool) :=
  ws.filterMap fun w => match w.splitOn "=" with
    | [a, b] => a.toInt?.map fun n => (n, b == "1")
    | _ => none

def chars (h : String) : Option (List Char) := (unhexStr h).map String.toList

def addUser (s : St) (n : Int) : St := if s.users.contains n then s else { s with users := s.users ++ [n] }

def feed (s : St) (line : String) : St :=
  match words line with
  | ["cfg", "out", a, b] => { s with outCfg := ⟨a == "1", b == "1"⟩ }
  | ["cfg", "log", a, b] => { s with logCfg := ⟨a == "1", b == "1"⟩ }
  | ["cfg", "err", a, b] => { s with errCfg := ⟨a == "1", true, b == "1"⟩ }
  | "cfg" :: "strsw" :: ws => { s with strSw := parseMap ws }
  | "cfg" :: "filesw" :: ws => { s with fileSw := parseMap ws }
  | ["cfg", "cur", n] => { s with cur := n.toInt?.getD 1 }
  | ["cfg", "peruser", b] => { s with perUser := b == "1" }
  | ["EV", "out", fl, h] =>
    match fl.toNat?, chars h with
    | some f, some t => { s with outs := s.outs.push ⟨f % 2 == 1, t⟩ }
    | _, _ => { s with bad := s.bad + 1 }
  | ["EV", "log", fl, h] =>
    match fl.toNat?, chars h with
    | some f, some t => { s with logs := s.logs.push ⟨(f / 2) % 2 == 1, t⟩ }
    | _, _ => { s with bad := s.bad + 1 }
  | ["EV", "err", fl, stop, h] =>
    match fl.toNat?, chars h with
    | some f, some t => { s with errs := s.errs.push (.err ((f / 8) % 2 == 1) (stop == "1") t) }
    | _, _ => { s with bad := s.bad + 1 }
  | ["EV", "warn", fl, h] =>
    match fl.toNat?, chars h with
    | some f, some t => { s with errs := s.errs.push (.warn ((f / 8) % 2 == 1) t) }
    | _, _ => { s with bad := s.bad + 1 }
  | "EV" :: "endrow" :: _fl :: n :: pend =>
    match n.toInt? with
    | some n => addUser { s with pevs := s.pevs.push (.endRow n (pend.filterMap unhexStr)) } n
    | none => { s with bad := s.bad + 1 }
  | ["EV", "popen", _fl, n, mode] =>
    match n.toInt? with
    | some n => if mode == "trunc" then addUser { s with pevs := s.pevs.push (.reopen n) } n else s
    | none => { s with bad := s.bad + 1 }
  | ["EV", "pmsg", fl, n, h] =>
    match fl.toNat?, n.toInt?, chars h with
    | some f, some n, some t => addUser { s with pevs := s.pevs.push (.msg n ((f / 4) % 2 == 1) t) } n
    | _, _, _ => { s with bad := s.bad + 1 }
  | ["EV", kind, fl, n, name, _fmt, v, r] =>
    let val : Option Var := match kind with
      | "pd" => (unhex64 v).map .double
      | "ps" => (unhexStr v).map .str
      | "pi" => v.toInt?.map .long
      | _ => none
    match fl.toNat?, n.toInt?, unhexStr name, val, chars r with
    | some f, some n, some name, some v, some r =>
      addUser { s with pevs := s.pevs.push (.val n ((f / 4) % 2 == 1) name v r) } n
    | _, _, _, _, _ => { s with bad := s.bad + 1 }
  | "cfg" :: "selusers" :: ws => { s with extraUsers := ws.filterMap String.toInt? }
  | ["cfg", "refreshed", b] => { s with refreshed := b == "1" }
  | ["dm", "reset"] => { s with dm := {} }
  | ["dm", "unload"] => { s with dm := { s.dm with info := {}, str := [] } }
  | ["dm", "cfg", f, g] => { s with dmFile := f == "1", dmStr := g == "1" }
  | ["dm", "sim", hasDump, app, prDump, tok] =>
    let sim : Option (Option Bool) × List Char :=
      (if hasDump == "1" then some (if app == "-" then none else some (app == "1")) else none, tok.toList)
    { s with dm := dumpStep s.dmFile s.dmStr (prDump == "1") s.dm sim }
  | ["sk", "reset"] => { s with so := {}, skAcc := [] }
  | "sk" :: "cfg" :: h :: ws => { s with skHoisted := h == "1", skFileSw := parseMap ws, skAcc := [] }
  | "sk" :: "sim" :: first :: prPunch :: tidy :: bs =>
    let blocks : List (Int × Bool) := bs.filterMap fun w => match w.splitOn ":" with
      | [a, b] => a.toInt?.map fun n => (n, b == "1")
      | _ => none
    let p := simPrologue s.skHoisted (look s.skFileSw) (first == "1") (prPunch == "1") (tidy == "1") blocks s.so
    { s with so := p.1, skAcc := s.skAcc ++ p.2 }
  | [] => s
  | _ => { s with bad := s.bad + 1 }

def hexChars (cs : List Char) : String := hexStr (String.ofList cs)

def showLines (tag : String) (ls : List (List Char)) : String :=
  s!"P {tag} {ls.length}" ++ String.join (ls.map fun l => " " ++ hexChars l) ++
    s!" | {hexChars (lineAt ls (-1))} {hexChars (lineAt ls ls.length)} {hexChars (lineAt ls (ls.length + 7))}"

def report (s : St) : List String :=
  let o := routeMsgs s.outCfg s.outs.toList
  let l := routeMsgs s.logCfg s.logs.toList
  let es := s.errs.toList
  let errStr := (errStrChunks s.errCfg es).flatten
  let errFile := (errFileChunks s.errCfg es).flatten
  let warnStr := (warnStrChunks s.errCfg es).flatten
  let cfg : PCfg := ⟨if s.perUser then specStrOn (look s.strSw) else codeStrOn (look s.strSw) s.cur, look s.fileSw⟩
  let r := routePunch cfg s.pevs.toList
  [ s!"P outstr {hexChars o.str}", showLines "outlines" (if s.outCfg.strOn then splitLines o.str else []),
    s!"P outfile {hexChars o.file}",
    s!"P logstr {hexChars l.str}", showLines "loglines" (if s.logCfg.strOn then splitLines l.str else []),
    s!"P logfile {hexChars l.file}",
    s!"P errstr {hexChars errStr}", showLines "errlines" (splitLines errStr), s!"P errfile {hexChars errFile}",
    s!"P errcount {errCount es}",
    s!"P warnstr {hexChars warnStr}", showLines "warnlines" (splitLines warnStr) ] ++
  s.users.flatMap (fun n =>
    [ s!"P selstr {n} {hexChars (r.str n)}",
      showLines s!"sellines {n}" (if cfg.strOn n then splitLines (r.str n) else []),
      s!"P selfile {n} {hexChars (r.file n)}",
      s!"P tab {n} {(Driver.SelOut.dump (r.tab n)).drop 2}" ]) ++
  [s!"P bad {s.bad}"]

def showSk : Sk → String
  | .opened n => s!"o{n}"
  | .head n => s!"h{n}"

/-- history mode: the call is run on the persistent instance state -/
def reportCall (s : St) (mode : String := "call") : St × List String :=
  let cfg : PCfg := ⟨if s.perUser then specStrOn (look s.strSw) else codeStrOn (look s.strSw) s.cur, look s.fileSw⟩
  let c : CallCfg := ⟨s.outCfg, s.logCfg, s.errCfg, cfg⟩
  let e : CallEvs := ⟨s.outs.toList, s.logs.toList, s.errs.toList, s.pevs.toList⟩
  let i := if mode == "nodb" then s.inst.callNoDb s.refreshed c e
           else if mode == "loadfail" then s.inst.loadFail s.refreshed c e
           else s.inst.call c e
  let users := s.extraUsers.foldl (fun us n => if us.contains n then us else us ++ [n]) s.users
  let v := i.views
  let out :=
    [ s!"P outstr {hexChars v.outStr}", showLines "outlines" v.outLines, s!"P outfile {hexChars i.disk.out}",
      s!"P logstr {hexChars v.logStr}", showLines "loglines" v.logLines, s!"P logfile {hexChars i.disk.log}",
      s!"P errstr {hexChars v.errStr}", showLines "errlines" v.errLines, s!"P errfile {hexChars i.disk.err}",
      s!"P errcount {errCount e.errs}",
      s!"P warnstr {hexChars v.warnStr}", showLines "warnlines" v.warnLines ] ++
    users.flatMap (fun n =>
      [ s!"P selstr {n} {hexChars (v.selStr n)}", showLines s!"sellines {n}" (v.selLines n),
        s!"P selfile {n} {hexChars (i.disk.sel n)}",
        s!"P tab {n} {(Driver.SelOut.dump (v.tab n)).drop 2}" ]) ++
    [s!"P bad {s.bad}"]
  ({ s with inst := i, outs := #[], logs := #[], errs := #[], pevs := #[], users := [], bad := 0 }, out)

def fmtQuery (ws : List String) : String :=
  match ws with
  | [hp, user, kind, name, len, tab, fmt] =>
    match unhexStr name, unhexStr fmt, len.toNat? with
    | some name, some fmt, some len =>
      let hp := hp == "1"
      let k : Option ColKind :=
        if user == "1" then (if kind == "ps" then some (.userStr len (tab == "1")) else if kind == "pd" then some .e4 else none)
        else classify name (kind == "pi") (kind == "ps")
      match k with
      | some k => if fmtOf hp k == fmt then "P fq ok" else s!"P fq bad {hexStr (fmtOf hp k)}"
      | none => "P fq skip"
    | _, _, _ => "P fq parse"
  | _ => "P fq parse"

def hexU8 (l : List UInt8) : String := if l.isEmpty then "-" else hexBytes (ByteArray.mk l.toArray)

/-- `cells n defined r0 r1 c0 c1 cap`: the four accessors on every (row, col) of the table of the last call -/
def cellsQuery (s : St) (ws : List String) : List String :=
  match ws.map String.toInt? with
  | [some n, some d, some r0, some r1, some c0, some c1, some cap] =>
    let t : Option Table := if d == 1 then some (s.inst.views.tab n) else none
    let cap := cap.toNat
    let api := match t with | some t => t.rowCountAPI | none => 0
    let cols := match t with | some t => t.colCount | none => 0
    let rows := (List.range (r1 - r0 + 1).toNat).map fun (i : Nat) => r0 + (i : Int)
    let colsL := (List.range (c1 - c0 + 1).toNat).map fun (i : Nat) => c0 + (i : Int)
    [s!"P K {n} {api} {rowCountF api} {cols}"] ++
    rows.flatMap fun r => colsL.map fun c =>
      let (code, v) := getOpt t r c
      let (codeF, vF) := getOptF t r (c + 1)
      let agree := if codeF == code && vF == v then "1" else "0"
      let dh := match dvalReported v with | some b => hex64 b | none => "-"
      let (s2, sf) := match v with
        | .str x => (hexU8 (strncpyView cap x.toUTF8.toList),
                     let p := padF cap x.toUTF8.toList; s!"{hexU8 p.1}:{p.2}")
        | .long _ => ("num", "num")
        | .double _ => ("num", "num")
        | _ => ("untouched", "untouched")
      s!"P C {r} {c} {code} {Driver.SelOut.showVar v} {vtypeReported v} {dh} {s2} {sf} {agree}"
  | _ => ["P cells parse"]

def run : IO Unit := do
  let lines ← readLines (← IO.getStdin)
  let out ← IO.getStdout
  let mut s : St := {}
  for l in lines do
    let t := l.trimAscii.toString
    if t == "end" then
      for r in report s do out.putStrLn r
      s := {}
    else if t == "endcall" then
      let (s', rs) := reportCall s
      for r in rs do out.putStrLn r
      s := s'
    else if t == "endcallnodb" then
      let (s', rs) := reportCall s "nodb"
      for r in rs do out.putStrLn r
      s := s'
    else if t == "endloadfail" then
      let (s', rs) := reportCall s "loadfail"
      for r in rs do out.putStrLn r
      s := s'
    else if t == "loadok" then
      -- a successful load: files untouched (file switches are forced off), views are those of the internal test run (not judged)
      s := { s with inst := { disk := s.inst.disk }, outs := #[], logs := #[], errs := #[], pevs := #[], users := [], bad := 0,
                    so := {}, skAcc := [], dm := { s.dm with info := {}, str := [] } }
      out.putStrLn "P bad 0"
    else if t == "reset" then
      s := {}
    else if t == "sk endcall" then
      out.putStrLn ("P sk" ++ String.join (s.skAcc.map fun k => " " ++ showSk k))
      s := { s with so := s.so.closeAll, skAcc := [] }
    else if t == "dm endcall" then
      let b := fun (x : Bool) => if x then "1" else "0"
      out.putStrLn s!"P dm {b s.dm.info.on} {b s.dm.info.any} {b s.dm.info.append} f={String.ofList s.dm.file} s={String.ofList s.dm.str} lines={(dumpLines s.dm).length}"
    else if t.startsWith "cells " then
      for r in cellsQuery s ((words t).drop 1) do out.putStrLn r
    else if t.startsWith "fq " then
      out.putStrLn (fmtQuery ((words t).drop 1))
    else
      s := feed s l

end Driver.Route
