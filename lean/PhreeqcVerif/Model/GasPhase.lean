import PhreeqcVerif.Model.NumOps
import PhreeqcVerif.Model.PengRobinson
/-! Gas-phase bookkeeping around the equation of state, as coded in `calc_gas_pressures`,
`calc_fixed_volume_gas_pressures`, `mb_gases` and the `GAS_MOLES` row of `residuals` (model.cpp, gases.cpp). -/
namespace PhreeqcVerif.GasPhase
open NumOps PhreeqcVerif.PR

variable {α : Type} [NumOps α] [∀ a b : α, Decidable (a < b)] [∀ a b : α, Decidable (a ≤ b)]

/-- running sum as the C++ accumulates it -/
def total (ns : List α) : α := ns.foldl (fun acc n => acc + n) (lit 0)

/-- `pr_p = fraction_x * P` with `fraction_x = moles / m_sum` -/
def partials (ns : List α) (p : α) : List α := ns.map fun n => n / total ns * p

/-- ideal gas: `P = n R T / V` -/
def idealP (n tk vol : α) : α := n * gasR * tk / vol

/-! ### fixed-pressure phase (`GP_PRESSURE`) -/

/-- `mb_gases`: the gas-phase equation is in the model when the sum of the equilibrium partial pressures
(`gas_unknown->f`) exceeds the fixed pressure by 1e-7 or the phase still holds moles (> MIN_TOTAL) -/
def gasIn (f totalP moles minTotal : α) : Bool :=
  decide (totalP + lit (1 / 10000000) < f) || decide (minTotal < moles)

/-- `residuals`, `GAS_MOLES` row (not the numerical fixed-volume variant): `residual = total_p - f`;
convergence is refused when `fabs(residual) > toler && gas_in` -/
def gateOk (toler f totalP : α) (gin : Bool) : Bool := !(gin && decide (toler < absv (totalP - f)))

/-- `calc_gas_pressures`, fixed pressure: `moles_x = p_soln_x * N / P`, `fraction_x = moles_x / N` -/
def fixedPMoles (psoln : List α) (nTot totalP : α) : List α := psoln.map fun p => p * nTot / totalP
def fixedPFractions (psoln : List α) (nTot totalP : α) : List α :=
  (fixedPMoles psoln nTot totalP).map fun m => m / nTot

/-! ### fixed-volume phase (`GP_VOLUME`) -/

/-- ideal: `moles_x = p_soln_x * V / (R * TK)`, `total_p = Σ p_soln_x` -/
def fixedVIdealMoles (psoln : List α) (vol tk : α) : List α := psoln.map fun p => p * vol / (gasR * tk)

/-- Peng–Robinson: `moles_x = p_soln_x / P * V / V_m` -/
def fixedVPRMoles (psoln : List α) (totalP vol vm : α) : List α := psoln.map fun p => p / totalP * vol / vm

/-- the damping of the molar volume between iterations (`calc_gas_pressures`, fixed volume, PR) -/
def dampVm (vmOld vol nTot : α) : α :=
  let v := vol / nTot
  let v := if v < lit (16 / 1000) then lit (16 / 1000) else if lit 10000 < v then lit 10000 else v
  if v < lit (2 / 100) then (lit 8 * vmOld + v) / lit 9
  else if v < lit (3 / 100) then (lit 6 * vmOld + v) / lit 7
  else if v < lit (5 / 100) then (lit 4 * vmOld + v) / lit 5
  else if v < lit (7 / 100) then (lit 2 * vmOld + v) / lit 3
  else (lit 1 * vmOld + v) / lit 2

/-- the weight `w` of the old molar volume in `dampVm` (`(w * vmOld + v) / (w + 1)`) -/
def dampWeight (v : α) : α :=
  if v < lit (2 / 100) then lit 8 else if v < lit (3 / 100) then lit 6 else if v < lit (5 / 100) then lit 4
  else if v < lit (7 / 100) then lit 2 else lit 1

/-! ### the gas rows of `residuals` / `check_residuals` -/

/-- `residuals`, `GAS_MOLES` row: numerical fixed-volume variant `moles - moles_x`, otherwise `total_p - f` -/
def gasResidual (numericalFixedV : Bool) (moles molesX totalP f : α) : α :=
  if numericalFixedV then moles - molesX else totalP - f

/-- `residuals`: the fixed-volume pressure test — convergence is refused while
`fabs(last_patm_x - patm_x) > 0.001 || fabs(last_patm_x - total_p) > 0.001` (absolute, in atm) -/
def pressureTestFails (lastPatm patm totalP : α) : Bool :=
  decide (lit (1 / 1000) < absv (lastPatm - patm)) || decide (lit (1 / 1000) < absv (lastPatm - totalP))

/-- the contribution of one `GAS_MOLES` row to `converge` (`true` = this row does not refuse convergence) -/
def gasRowConverged (fixedVolume gasInFlag calcDeriv : Bool) (toler residual lastPatm patm totalP : α) : Bool :=
  !(gasInFlag && decide (toler < absv residual)) &&
  !(fixedVolume && pressureTestFails lastPatm patm totalP && !calcDeriv)

/-- `check_residuals`, `GAS_MOLES` row: an ERROR message when the phase equation is in and `|residual| ≥ epsilon` -/
def gasCheckResidualError (gasInFlag : Bool) (epsilon residual : α) : Bool :=
  gasInFlag && (decide (epsilon ≤ residual) || decide (residual ≤ -epsilon))

/-- one pass of `calc_gas_pressures` for a fixed-volume Peng–Robinson phase (no three-root search): damped molar volume,
pressure from the equation of state, mole numbers `p_soln / P · V / V_m`; returns `(V_m, P, moles)` -/
def fixedVStep (rt b a vmOld vol nPrev : α) (psoln : List α) : α × α × List α :=
  let vm := dampVm vmOld vol nPrev
  let p := pOfVm false rt b a vm
  (vm, p, fixedVPRMoles psoln p vol vm)

end PhreeqcVerif.GasPhase
