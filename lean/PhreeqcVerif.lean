import PhreeqcVerif.Model.SelOut
