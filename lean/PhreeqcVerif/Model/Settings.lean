import PhreeqcVerif.Model.Registry
/-!
Model of the switch / file-name store of one `IPhreeqc` object (src/IPhreeqc.cpp `Set*/Get*`,
`SetCurrentSelectedOutputUserNumber`, `create_file_name`, `sel_file_name`, constructor defaults) and of the
C-level calls through the registry (invalid ids → invalid-instance result, nothing changes).
-/
namespace PhreeqcVerif.Settings
open PhreeqcVerif.Registry

inductive Sw where
  | outFile | outStr | errFile | errStr | errOn | logFile | logStr | dumpFile | dumpStr
deriving DecidableEq, Repr

inductive Nm where
  | out | err | log | dump
deriving DecidableEq, Repr

structure Inst where
  id : Nat
  sw : Sw → Bool
  name : Nm → String
  cur : Int
  selFileOn : List (Int × Bool)
  selStrOn : List (Int × Bool)
  selFileName : List (Int × String)
  /-- a database is loaded (`DatabaseLoaded`): Run* calls read their input only then -/
  loaded : Bool
  /-- the accumulated-lines buffer (`StringInput`) is not empty -/
  acc : Bool
  /-- SELECTED_OUTPUT blocks the engine holds (`Phreeqc::SelectedOutput_map`), in definition order: user number ↦ the
  `-file` name if one was given -/
  engSel : List (Int × Option String)

def selName (n : Int) (id : Nat) : String := s!"selected_{n}.{id}.out"

/-- state of a newly constructed object with index `id` -/
def fresh (id : Nat) : Inst :=
  { id := id,
    sw := fun s => match s with | .errStr => true | .errOn => true | _ => false,
    name := fun n => match n with
      | .out => s!"phreeqc.{id}.out" | .err => s!"phreeqc.{id}.err"
      | .log => s!"phreeqc.{id}.log" | .dump => s!"dump.{id}.out",
    cur := 1, selFileOn := [(1, false)], selStrOn := [(1, false)], selFileName := [(1, selName 1 id)],
    loaded := false, acc := false, engSel := [] }

def setAssoc {β} (m : List (Int × β)) (k : Int) (v : β) : List (Int × β) :=
  (k, v) :: m.filter (fun p => p.1 ≠ k)

def Inst.setSw (i : Inst) (s : Sw) (v : Bool) : Inst := { i with sw := fun t => if t = s then v else i.sw t }
def Inst.getSw (i : Inst) (s : Sw) : Bool := i.sw s

/-- `Set…FileName(filename)`: NULL (`none`) and the empty string are ignored -/
def Inst.setName (i : Inst) (n : Nm) (v : Option String) : Inst :=
  match v with
  | some s => if s.isEmpty then i else { i with name := fun t => if t = n then s else i.name t }
  | none => i
def Inst.getName (i : Inst) (n : Nm) : String := i.name n

/-- `SetCurrentSelectedOutputUserNumber(n)`: VR_OK (0) / VR_INVALIDARG (-3) -/
def Inst.setCur (i : Inst) (n : Int) : Inst × Int := if 0 ≤ n then ({ i with cur := n }, 0) else (i, -3)

def Inst.setSelFileOn (i : Inst) (v : Bool) : Inst :=
  if 0 ≤ i.cur then { i with selFileOn := setAssoc i.selFileOn i.cur v } else i
def Inst.getSelFileOn (i : Inst) : Bool := (i.selFileOn.lookup i.cur).getD false
def Inst.setSelStrOn (i : Inst) (v : Bool) : Inst := { i with selStrOn := setAssoc i.selStrOn i.cur v }
def Inst.getSelStrOn (i : Inst) : Bool := (i.selStrOn.lookup i.cur).getD false
def Inst.setSelName (i : Inst) (v : Option String) : Inst :=
  match v with
  | some s => if s.isEmpty then i else { i with selFileName := setAssoc i.selFileName i.cur s }
  | none => i
def Inst.getSelName (i : Inst) : String := (i.selFileName.lookup i.cur).getD ""

/-- `UnLoadDatabase()`, the first thing every `LoadDatabase*` call does (whether or not the load then succeeds): the current
user number and the two per-number switch maps return to their initial state, the engine forgets its SELECTED_OUTPUT
blocks; switches, the four file names and the per-number file-name map are user settings and are kept -/
def Inst.unload (i : Inst) (ok : Bool) : Inst :=
  { i with cur := 1, selFileOn := [(1, false)], selStrOn := [(1, false)], loaded := ok, acc := false, engSel := [] }

inductive PunchChoice where
  | file (f : String) | dflt | keep

/-- file-name rule of `IPhreeqc::punch_open(n)`: a `-file` name given in the block wins; otherwise an empty or missing
entry gets the default name; otherwise the entry is kept -/
def punchChoice (given : Option String) (missing : Bool) : PunchChoice :=
  match given with
  | some f => if f.isEmpty then (if missing then .dflt else .keep) else .file f
  | none => if missing then .dflt else .keep

/-- `punch_open(n)` on the per-number file-name map; the default name embeds the user number and the instance id -/
def Inst.punchName (i : Inst) (n : Int) : Inst :=
  match punchChoice (i.engSel.lookup n).join ((i.selFileName.lookup n).getD "").isEmpty with
  | .file f => { i with selFileName := setAssoc i.selFileName n f }
  | .dflt => { i with selFileName := setAssoc i.selFileName n (selName n i.id) }
  | .keep => i

/-- the engine's block list after (re)defining number `n`: only a redefinition of number 1 without `-file` inherits the
earlier name (`read_selected_output` copies the old block for `n_user == 1` only) -/
def newEng (eng : List (Int × Option String)) (n : Int) (file : Option String) : List (Int × Option String) :=
  (eng.filter (fun (p : Int × Option String) => p.1 ≠ n)) ++
    [(n, match file with
         | some f => some f
         | none => if n = 1 then (eng.lookup n).join else none)]

/-- blocks re-opened at the start of a run: file switch on (and not the block just defined, which is open already) -/
def reopenKeys (eng : List (Int × Option String)) (fileOn : List (Int × Bool)) (skip : Option Int) : List Int :=
  (eng.map (fun (p : Int × Option String) => p.1)).filter (fun k => some k != skip && (fileOn.lookup k).getD false)

def Inst.withEng (i : Inst) (e : List (Int × Option String)) : Inst := { i with engSel := e }

/-- a `Run*` call whose input is one `SELECTED_OUTPUT n` block (with options, so that it counts as a new definition) and an
optional `-file` name: the block is stored (only a redefinition of number 1 without `-file` inherits the earlier name:
`read_selected_output` copies the old block for `n_user == 1` only), its file is opened
through `punch_open`; then every block whose file switch is on and whose stream is closed is re-opened the same way.
Without a loaded database the call fails before reading anything. Result = number of errors. -/
def Inst.defSel (i : Inst) (n : Int) (file : Option String) : Inst × Int :=
  if !i.loaded then (i, 1) else
  ((n :: reopenKeys (newEng i.engSel n file) i.selFileOn (some n)).foldl (fun j k => j.punchName k)
     (i.withEng (newEng i.engSel n file)), 0)

/-- a `Run*` call whose input defines nothing: only the re-opening of the files of existing blocks happens -/
def Inst.rerun (i : Inst) : Inst × Int :=
  if !i.loaded then (i, 1) else
  ((reopenKeys i.engSel i.selFileOn none).foldl (fun j k => j.punchName k) i, 0)

/-- `RunAccumulated`: with an empty buffer the simulation loop ends before anything is re-opened -/
def Inst.runAcc (i : Inst) : Inst × Int := if i.acc then i.rerun else (i, if i.loaded then 0 else 1)

/-- API-level operations (the C functions of IPhreeqc.h restricted to the settings store) -/
inductive Call where
  | setSw (s : Sw) (v : Bool) | getSw (s : Sw)
  | setName (n : Nm) (v : Option String) | getName (n : Nm)
  | setCur (n : Int) | getCur
  | setSelFileOn (v : Bool) | getSelFileOn | setSelStrOn (v : Bool) | getSelStrOn
  | setSelName (v : Option String) | getSelName
  | unload (ok : Bool) | defSel (n : Int) (file : Option String) | rerun
  | accumulate | clearAcc | runAcc

/-- result of a call: an integer code or a string -/
inductive Res where
  | int (v : Int) | str (s : String)
deriving DecidableEq, Repr

def b2i (b : Bool) : Int := if b then 1 else 0

def Inst.call (i : Inst) : Call → Inst × Res
  | .setSw s v => (i.setSw s v, .int 0)
  | .getSw s => (i, .int (b2i (i.getSw s)))
  | .setName n v => (i.setName n v, .int 0)
  | .getName n => (i, .str (i.getName n))
  | .setCur n => let (j, r) := i.setCur n; (j, .int r)
  | .getCur => (i, .int i.cur)
  | .setSelFileOn v => (i.setSelFileOn v, .int 0)
  | .getSelFileOn => (i, .int (b2i i.getSelFileOn))
  | .setSelStrOn v => (i.setSelStrOn v, .int 0)
  | .getSelStrOn => (i, .int (b2i i.getSelStrOn))
  | .setSelName v => (i.setSelName v, .int 0)
  | .getSelName => (i, .str i.getSelName)
  | .unload ok => (i.unload ok, .int (if ok then 0 else 1))
  | .defSel n f => let (j, r) := i.defSel n f; (j, .int r)
  | .rerun => let (j, r) := i.rerun; (j, .int r)
  | .accumulate => ({ i with acc := true }, .int 0)
  | .clearAcc => ({ i with acc := false }, .int 0)
  | .runAcc => let (j, r) := i.runAcc; (j, .int r)

/-- documented invalid-instance result of the C function behind a call -/
def badResult : Call → Res
  | .getName _ => .str ""
  | .getSelName => .str ""
  | _ => .int (-6)

/-- the C API: look the instance up, forward, or return the invalid-instance result -/
def capi (r : Reg Inst) (id : Int) (c : Call) : Reg Inst × Res := r.apply id (fun i => i.call c) (badResult c)

/-! ### The id enters results only through rendered default file names

A *symbolic* copy of the store: names are either a default (not yet rendered) or a user string; no id anywhere. -/
inductive SName where
  | dflt (n : Nm) | dfltSel (k : Int) | user (s : String)
deriving DecidableEq, Repr

/-- the only place the id is used -/
def SName.render (id : Nat) : SName → String
  | .dflt .out => s!"phreeqc.{id}.out" | .dflt .err => s!"phreeqc.{id}.err"
  | .dflt .log => s!"phreeqc.{id}.log" | .dflt .dump => s!"dump.{id}.out"
  | .dfltSel k => selName k id
  | .user s => s

def SName.isEmptyS : SName → Bool
  | .user s => s.isEmpty
  | _ => false

structure SInst where
  sw : Sw → Bool
  name : Nm → SName
  cur : Int
  selFileOn : List (Int × Bool)
  selStrOn : List (Int × Bool)
  selFileName : List (Int × SName)
  loaded : Bool
  acc : Bool
  engSel : List (Int × Option String)

inductive SRes where
  | int (v : Int) | name (n : SName)

def SRes.render (id : Nat) : SRes → Res
  | .int v => .int v
  | .name n => .str (n.render id)

def SInst.render (id : Nat) (s : SInst) : Inst :=
  { id := id, sw := s.sw, name := fun n => (s.name n).render id, cur := s.cur, selFileOn := s.selFileOn,
    selStrOn := s.selStrOn, selFileName := s.selFileName.map (fun p => (p.1, p.2.render id)), loaded := s.loaded,
    acc := s.acc, engSel := s.engSel }

def sfresh : SInst :=
  { sw := fun s => match s with | .errStr => true | .errOn => true | _ => false,
    name := fun n => .dflt n, cur := 1, selFileOn := [(1, false)], selStrOn := [(1, false)],
    selFileName := [(1, .dfltSel 1)], loaded := false, acc := false, engSel := [] }

def SInst.punchName (i : SInst) (n : Int) : SInst :=
  match punchChoice (i.engSel.lookup n).join (match i.selFileName.lookup n with | some x => x.isEmptyS | none => true) with
  | .file f => { i with selFileName := setAssoc i.selFileName n (.user f) }
  | .dflt => { i with selFileName := setAssoc i.selFileName n (.dfltSel n) }
  | .keep => i

def SInst.withEng (i : SInst) (e : List (Int × Option String)) : SInst := { i with engSel := e }

def SInst.call (i : SInst) : Call → SInst × SRes
  | .setSw s v => ({ i with sw := fun t => if t = s then v else i.sw t }, .int 0)
  | .getSw s => (i, .int (b2i (i.sw s)))
  | .setName n (some s) => (if s.isEmpty then i else { i with name := fun t => if t = n then .user s else i.name t }, .int 0)
  | .setName _ none => (i, .int 0)
  | .getName n => (i, .name (i.name n))
  | .setCur n => if 0 ≤ n then ({ i with cur := n }, .int 0) else (i, .int (-3))
  | .getCur => (i, .int i.cur)
  | .setSelFileOn v => (if 0 ≤ i.cur then { i with selFileOn := setAssoc i.selFileOn i.cur v } else i, .int 0)
  | .getSelFileOn => (i, .int (b2i ((i.selFileOn.lookup i.cur).getD false)))
  | .setSelStrOn v => ({ i with selStrOn := setAssoc i.selStrOn i.cur v }, .int 0)
  | .getSelStrOn => (i, .int (b2i ((i.selStrOn.lookup i.cur).getD false)))
  | .setSelName (some s) => (if s.isEmpty then i else { i with selFileName := setAssoc i.selFileName i.cur (.user s) }, .int 0)
  | .setSelName none => (i, .int 0)
  | .getSelName => (i, .name ((i.selFileName.lookup i.cur).getD (.user "")))
  | .unload ok => ({ i with cur := 1, selFileOn := [(1, false)], selStrOn := [(1, false)], loaded := ok, acc := false, engSel := [] },
                   .int (if ok then 0 else 1))
  | .defSel n file =>
    if !i.loaded then (i, .int 1) else
    ((n :: reopenKeys (newEng i.engSel n file) i.selFileOn (some n)).foldl (fun j k => j.punchName k)
       (i.withEng (newEng i.engSel n file)), .int 0)
  | .rerun =>
    if !i.loaded then (i, .int 1) else
    ((reopenKeys i.engSel i.selFileOn none).foldl (fun j k => j.punchName k) i, .int 0)
  | .accumulate => ({ i with acc := true }, .int 0)
  | .clearAcc => ({ i with acc := false }, .int 0)
  | .runAcc =>
    if i.acc then
      (if !i.loaded then (i, .int 1) else
       ((reopenKeys i.engSel i.selFileOn none).foldl (fun j k => j.punchName k) i, .int 0))
    else (i, .int (if i.loaded then 0 else 1))

end PhreeqcVerif.Settings
